(* DrainInv.v — an inductive invariant of the drain-status model (Drain.v) for ANY number of writers,
   CleanUp callers and spawned tasks, and its consequence: in every terminal configuration reachable
   under every schedule all threads have finished, the write buffer is empty, the status is idle and
   the eviction lock is free.  The invariant is stated over counts of threads per program counter
   (so that every step is linear arithmetic) plus one pointer fact about a spawner's task. *)
From stdpp Require Import gmap.
From Coq Require Import List Lia Arith.
Import ListNotations.
From Otter Require Import Drain DrainProofs.

(* ------------------------------------------------------------------ *)
(* counting threads *)

Definition cnt (f : thread -> bool) (ths : list thread) : nat := length (filter f ths).
Definition pceq (p q : pc) : bool := Nat.eqb (pc_to_nat p) (pc_to_nat q).
Definition at_pc (q : pc) (t : thread) : bool := pceq t.1 q.
Definition tok0 (t : thread) : bool := (pceq t.1 DTry || pceq t.1 DCas) && Nat.eqb t.2 0.
Definition b2n (b : bool) : nat := if b then 1 else 0.

Lemma nat_to_pc_to_nat p : nat_to_pc (pc_to_nat p) = p.
Proof. destruct p; reflexivity. Qed.

Lemma pceq_eq p q : pceq p q = true <-> p = q.
Proof.
  unfold pceq. rewrite Nat.eqb_eq. split; [|intros ->; reflexivity].
  intros H. rewrite <- (nat_to_pc_to_nat p), <- (nat_to_pc_to_nat q). rewrite H. reflexivity.
Qed.

Lemma cnt_app f l1 l2 : cnt f (l1 ++ l2) = cnt f l1 + cnt f l2.
Proof. unfold cnt. rewrite filter_app, app_length. reflexivity. Qed.

Lemma cnt_cons f t l : cnt f (t :: l) = b2n (f t) + cnt f l.
Proof. unfold cnt. cbn [filter]. destruct (f t); reflexivity. Qed.

Lemma cnt_set_nth f x : forall l i old,
  nth_error l i = Some old -> cnt f (set_nth i x l) + b2n (f old) = cnt f l + b2n (f x).
Proof.
  induction l as [|h t IH]; intros i old H; [destruct i; discriminate H|].
  destruct i as [|i]; cbn [nth_error set_nth] in *.
  - injection H as ->. rewrite !cnt_cons. lia.
  - rewrite !cnt_cons. specialize (IH i old H). lia.
Qed.

Lemma cnt_pos f l : 1 <= cnt f l -> exists j t, nth_error l j = Some t /\ f t = true.
Proof.
  induction l as [|h t IH]; [unfold cnt; cbn; lia|]. rewrite cnt_cons.
  destruct (f h) eqn:E; [intros _; exists 0, h; split; [reflexivity|exact E]|].
  cbn [b2n]. intros H. destruct (IH ltac:(lia)) as (j & u & Hj & Hu). exists (S j), u. split; assumption.
Qed.

Lemma cnt_ge f l j t : nth_error l j = Some t -> f t = true -> 1 <= cnt f l.
Proof.
  revert j. induction l as [|h r IH]; intros j H Hf; [destruct j; discriminate H|].
  rewrite cnt_cons. destruct j as [|j]; cbn [nth_error] in H.
  - injection H as ->. rewrite Hf. cbn [b2n]. lia.
  - specialize (IH j H Hf). lia.
Qed.

Lemma cnt_zero f l : (forall j t, nth_error l j = Some t -> f t = false) -> cnt f l = 0.
Proof.
  induction l as [|h r IH]; intros H; [reflexivity|]. rewrite cnt_cons.
  rewrite (H 0 h eq_refl). rewrite IH; [reflexivity|]. intros j t Hj. apply (H (S j) t Hj).
Qed.

Lemma set_nth_length {A} (x : A) : forall l i, length (set_nth i x l) = length l.
Proof. induction l as [|h t IH]; intros i; [destruct i; reflexivity|]. destruct i; cbn [set_nth length]; [reflexivity|rewrite IH; reflexivity]. Qed.

Lemma nth_error_set_nth_eq {A} (x : A) : forall l i, i < length l -> nth_error (set_nth i x l) i = Some x.
Proof.
  induction l as [|h t IH]; intros i H; [cbn in H; lia|]. destruct i; cbn [set_nth nth_error]; [reflexivity|].
  apply IH. cbn [length] in H. lia.
Qed.

Lemma nth_error_set_nth_neq {A} (x : A) : forall l i j, i <> j -> nth_error (set_nth i x l) j = nth_error l j.
Proof.
  induction l as [|h t IH]; intros i j H; [destruct i; reflexivity|].
  destruct i, j; cbn [set_nth nth_error]; try reflexivity; [lia|]. apply IH. lia.
Qed.

(* ------------------------------------------------------------------ *)
(* the invariant *)

Section Counts.
Variable ths : list thread.
Definition n_ (p : pc) : nat := cnt (at_pc p) ths.
Definition ntok0 : nat := cnt tok0 ths.
Definition n_owner : nat :=
  n_ SLoad2 + n_ SUnlockRet + n_ SStore + n_ SSpawn + n_ SUnlock + n_ MStore + n_ MDrain +
  n_ MLoad + n_ MCas + n_ MStoreReq + n_ MUnlock + n_ GLoad + n_ IDrain.
Definition n_mid : nat := n_ SUnlockRet + n_ SSpawn + n_ SUnlock + n_ MDrain + n_ MLoad + n_ MCas.
Definition n_A : nat :=
  n_ SSpawn + n_ DTry + n_ DCas + n_ DLock + n_ MStore + n_ MDrain + n_ MLoad + n_ MCas + n_ MStoreReq.
Definition n_W1 : nat :=
  n_ SLoad + n_ STry + n_ SLoad2 + n_ SStore + n_ MStore + n_ DTry + n_ DCas + n_ DLock + n_ CLock +
  n_ MStoreReq + n_ MUnlock + n_ RLoad + n_ GLock + n_ GLoad + n_ ILock + n_ IDrain.
Definition n_C : nat :=
  n_ SStore + n_ SSpawn + n_ DTry + n_ DCas + n_ DLock + n_ CLock + n_ MStore + n_ MDrain.
Definition ptr_ok : Prop :=
  forall i a, nth_error ths i = Some (SCas, a) ->
  forall tp, nth_error ths a = Some (tp, 0) -> tp = DTry \/ tp = DCas.
End Counts.

Definition CInv (s : dstate) : Prop :=
  let ds := ds_of s in let wb := wb_of s in let ths := ths_of s in
  ds <= 3 /\
  n_owner ths + ntok0 ths = b2n (lock_of s) /\
  (1 <= n_mid ths + ntok0 ths -> ds = 2 \/ ds = 3) /\
  (ds = 2 \/ ds = 3 -> 1 <= n_A ths) /\
  (ds = 1 -> 1 <= n_W1 ths) /\
  ((ds = 1 \/ ds = 3 \/ 1 <= n_C ths) \/
   (ds = 2 /\ wb <= n_ ths WLoad + n_ ths WCasP2R) \/
   (ds = 0 /\ wb <= n_ ths WLoad + n_ ths WCasReq + n_ ths WCasP2R)) /\
  ptr_ok ths.

(* the effect of one thread's move on every count *)
Lemma n_step ths i p a p' a' :
  nth_error ths i = Some (p, a) ->
  (forall q, n_ (set_nth i (p', a') ths) q + b2n (pceq p q) = n_ ths q + b2n (pceq p' q)) /\
  ntok0 (set_nth i (p', a') ths) + b2n (tok0 (p, a)) = ntok0 ths + b2n (tok0 (p', a')).
Proof.
  intros H. split; [intros q|]; [apply (cnt_set_nth (at_pc q) (p', a') ths i (p, a) H)|apply (cnt_set_nth tok0 (p', a') ths i (p, a) H)].
Qed.

Lemma n_spawn (ths : list (pc * nat)) (t : pc * nat) :
  (forall q, n_ (@app (pc * nat) ths (@cons (pc * nat) t (@nil (pc * nat)))) q = n_ ths q + b2n (pceq t.1 q)) /\
  ntok0 (@app (pc * nat) ths (@cons (pc * nat) t (@nil (pc * nat)))) = ntok0 ths + b2n (tok0 t).
Proof.
  split; [intros q|]; unfold n_, ntok0; rewrite cnt_app, cnt_cons; unfold cnt at 2; cbn [filter length]; unfold at_pc; lia.
Qed.

(* ------------------------------------------------------------------ *)
(* the pointer fact under the three kinds of list update *)

Lemma ptr_step ths i p a p' a' :
  ptr_ok ths -> nth_error ths i = Some (p, a) -> p' <> SCas ->
  (a' = 0 -> a = 0 /\ (p = DTry \/ p = DCas -> p' = DTry \/ p' = DCas)) ->
  ptr_ok (set_nth i (p', a') ths).
Proof.
  intros Hp Hi Hn Ha j b Hj tp Hb.
  assert (Hlt : i < length ths) by (apply nth_error_Some; rewrite Hi; discriminate).
  destruct (Nat.eq_dec j i) as [->|Hji].
  - rewrite nth_error_set_nth_eq in Hj by assumption. injection Hj as E _. contradiction.
  - rewrite nth_error_set_nth_neq in Hj by lia.
    destruct (Nat.eq_dec b i) as [->|Hbi].
    + rewrite nth_error_set_nth_eq in Hb by assumption. injection Hb as <- E.
      destruct (Ha E) as [-> Hpp]. apply Hpp. exact (Hp j i Hj p Hi).
    + rewrite nth_error_set_nth_neq in Hb by lia. exact (Hp j b Hj tp Hb).
Qed.

Lemma ptr_spawn ths i a :
  ptr_ok ths -> nth_error ths i = Some (SSpawn, a) ->
  ptr_ok (set_nth i (SCas, length ths) ths ++ [(DTry, 0)]).
Proof.
  intros Hp Hi j b Hj tp Hb.
  assert (Hlt : i < length ths) by (apply nth_error_Some; rewrite Hi; discriminate).
  assert (Hlen : length (set_nth i (SCas, length ths) ths) = length ths) by apply set_nth_length.
  destruct (Nat.lt_ge_cases b (length ths)) as [Hbl|Hbl].
  - rewrite nth_error_app1 in Hb by lia.
    destruct (Nat.eq_dec b i) as [->|Hbi].
    + rewrite nth_error_set_nth_eq in Hb by assumption. injection Hb as _ E. lia.
    + rewrite nth_error_set_nth_neq in Hb by lia.
      destruct (Nat.lt_ge_cases j (length ths)) as [Hjl|Hjl].
      * rewrite nth_error_app1 in Hj by lia.
        destruct (Nat.eq_dec j i) as [->|Hji].
        -- rewrite nth_error_set_nth_eq in Hj by assumption. injection Hj as E. lia.
        -- rewrite nth_error_set_nth_neq in Hj by lia. exact (Hp j b Hj tp Hb).
      * rewrite nth_error_app2 in Hj by lia. rewrite Hlen in Hj.
        destruct (j - length ths) as [|k]; cbn [nth_error] in Hj; [discriminate Hj|destruct k; discriminate Hj].
  - rewrite nth_error_app2 in Hb by lia. rewrite Hlen in Hb.
    destruct (b - length ths) as [|k]; cbn [nth_error] in Hb; [injection Hb as <-; left; reflexivity|destruct k; discriminate Hb].
Qed.

Lemma ptr_cas ths i a tp :
  ptr_ok ths -> nth_error ths i = Some (SCas, a) -> nth_error ths a = Some (tp, 0) ->
  ptr_ok (set_nth i (SUnlock, 1) (set_nth a (tp, 1) ths)).
Proof.
  intros Hp Hi Ha.
  assert (Htp : tp = DTry \/ tp = DCas) by exact (Hp i a Hi tp Ha).
  assert (Hia : i <> a) by (intros ->; rewrite Hi in Ha; injection Ha as E _; destruct Htp as [-> | ->]; discriminate E).
  assert (Hla : a < length ths) by (apply nth_error_Some; rewrite Ha; discriminate).
  apply (ptr_step (set_nth a (tp, 1) ths) i SCas a SUnlock 1).
  - apply (ptr_step ths a tp 0 tp 1 Hp Ha); [destruct Htp as [-> | ->]; discriminate|discriminate].
  - rewrite nth_error_set_nth_neq by lia. exact Hi.
  - discriminate.
  - discriminate.
Qed.

(* a retry of a possibly-refused writer: its argument stays positive, the helper's argument is 1 *)
Lemma ptr_retry ths i a :
  ptr_ok ths -> nth_error ths i = Some (FTry, S (S (S a))) ->
  ptr_ok (set_nth i (FTry, S a) ths ++ [(SLoad, 1)]).
Proof.
  intros Hp Hi j b Hj tp Hb.
  assert (Hlt : i < length ths) by (apply nth_error_Some; rewrite Hi; discriminate).
  assert (Hlen : length (set_nth i (FTry, S a) ths) = length ths) by apply set_nth_length.
  destruct (Nat.lt_ge_cases b (length ths)) as [Hbl|Hbl].
  - rewrite nth_error_app1 in Hb by lia.
    destruct (Nat.eq_dec b i) as [->|Hbi].
    + rewrite nth_error_set_nth_eq in Hb by assumption. injection Hb as _ E. discriminate E.
    + rewrite nth_error_set_nth_neq in Hb by lia.
      destruct (Nat.lt_ge_cases j (length ths)) as [Hjl|Hjl].
      * rewrite nth_error_app1 in Hj by lia.
        destruct (Nat.eq_dec j i) as [->|Hji].
        -- rewrite nth_error_set_nth_eq in Hj by assumption. injection Hj as E. discriminate E.
        -- rewrite nth_error_set_nth_neq in Hj by lia. exact (Hp j b Hj tp Hb).
      * rewrite nth_error_app2 in Hj by lia. rewrite Hlen in Hj.
        destruct (j - length ths) as [|k]; cbn [nth_error] in Hj; [discriminate Hj|destruct k; discriminate Hj].
  - rewrite nth_error_app2 in Hb by lia. rewrite Hlen in Hb.
    destruct (b - length ths) as [|k]; cbn [nth_error] in Hb; [discriminate Hb|destruct k; discriminate Hb].
Qed.

(* every thread that is not finished and not waiting for a held lock can move *)
Lemma step_enabled s j p a :
  nth_error (ths_of s) j = Some (p, a) -> p <> Done ->
  (p = DLock \/ p = CLock \/ p = GLock \/ p = ILock -> lock_of s = false) -> exists s', dstep s j = Some s'.
Proof.
  intros Hj Hd Hl. unfold dstep. rewrite Hj.
  destruct p; try contradiction; try (eexists; reflexivity).
  - destruct (ds_of s) as [|[|[|?]]]; eexists; reflexivity.
  - destruct (Nat.eqb (ds_of s) 2); eexists; reflexivity.
  - destruct (Nat.leb 2 (ds_of s)); eexists; reflexivity.
  - destruct (lock_of s); eexists; reflexivity.
  - destruct (Nat.leb 2 (ds_of s)); eexists; reflexivity.
  - destruct (nth_error (ths_of s) a) as [[tp [|ta]]|]; eexists; reflexivity.
  - destruct (lock_of s); eexists; reflexivity.
  - destruct (Nat.eqb a 0); eexists; reflexivity.
  - rewrite Hl by (left; reflexivity). eexists; reflexivity.
  - rewrite Hl by (right; left; reflexivity). eexists; reflexivity.
  - destruct (wb_of s); eexists; reflexivity.
  - destruct (Nat.eqb (ds_of s) 2); eexists; reflexivity.
  - destruct (Nat.eqb (ds_of s) 2); eexists; reflexivity.
  - destruct (Nat.eqb (ds_of s) 1); eexists; reflexivity.
  - destruct (ds_of s) as [|[|?]]; [destruct (Nat.eqb a 0)| |]; eexists; reflexivity.
  - rewrite Hl by (right; right; left; reflexivity). eexists; reflexivity.
  - destruct (Nat.eqb (ds_of s) 1); eexists; reflexivity.
  - rewrite Hl by (right; right; right; reflexivity). eexists; reflexivity.
  - destruct (wb_of s); eexists; reflexivity.
  - destruct a as [|[|[|a]]]; eexists; reflexivity.
Qed.

(* ------------------------------------------------------------------ *)
(* the invariant is preserved by every step of every thread *)

Ltac pose_counts H :=
  pose proof (H WPush); pose proof (H WLoad); pose proof (H WCasReq); pose proof (H WCasP2R);
  pose proof (H SLoad); pose proof (H STry); pose proof (H SLoad2); pose proof (H SUnlockRet);
  pose proof (H SStore); pose proof (H SSpawn); pose proof (H SCas); pose proof (H SUnlock);
  pose proof (H DTry); pose proof (H DCas); pose proof (H DLock); pose proof (H CLock);
  pose proof (H MStore); pose proof (H MDrain); pose proof (H MLoad); pose proof (H MCas);
  pose proof (H MStoreReq); pose proof (H MUnlock); pose proof (H RLoad); pose proof (H Done); pose proof (H RdLoad);
  pose proof (H GLock); pose proof (H GLoad); pose proof (H ILock); pose proof (H IDrain); pose proof (H FTry).

Ltac simp_counts := cbn [b2n pceq pc_to_nat Nat.eqb tok0 fst snd orb andb] in *.

Ltac simple_step Hi p' a' :=
  let Hn := fresh "Hn" in let Ht := fresh "Ht" in
  destruct (n_step _ _ _ _ p' a' Hi) as [Hn Ht]; pose_counts Hn; clear Hn; simp_counts.

Ltac open_inv HI :=
  unfold CInv in HI |- *; cbn [ds_of lock_of wb_of ths_of mk fst snd] in HI |- *;
  unfold n_owner, n_mid, n_A, n_W1, n_C in HI |- *;
  destruct HI as (I1 & I2 & I3 & I4 & I5 & I6 & I7).

Ltac ptr_simple I7 Hi :=
  apply (ptr_step _ _ _ _ _ _ I7 Hi); [discriminate|
    let E := fresh in intros E; first [discriminate E|split; [exact E|let X := fresh in intros [X|X]; discriminate X]]].

Ltac finish HI Hi :=
  open_inv HI; simp_counts;
  split; [lia|]; split; [lia|]; split; [lia|]; split; [lia|]; split; [lia|]; split; [lia|];
  try (match goal with H : ptr_ok _ |- _ => ptr_simple H Hi end).

Lemma CInv_step s i s' : CInv s -> dstep s i = Some s' -> CInv s'.
Proof.
  destruct s as [[[ds lock] wb] ths]. unfold dstep. cbn [ds_of lock_of wb_of ths_of fst snd].
  intros HI. destruct (nth_error ths i) as [[p a]|] eqn:Hi; [|discriminate].
  assert (Hb2 : b2n lock <= 1) by (destruct lock; cbn [b2n]; lia).
  destruct p.
  - (* WPush *) intros E; injection E as <-. simple_step Hi WLoad a. finish HI Hi.
  - (* WLoad *)
    destruct ds as [|[|[|ds]]]; intros E; injection E as <-.
    + simple_step Hi WCasReq a. finish HI Hi.
    + simple_step Hi SLoad a. finish HI Hi.
    + simple_step Hi WCasP2R a. finish HI Hi.
    + simple_step Hi Done a. finish HI Hi.
  - (* WCasReq *)
    intros E; injection E as <-. simple_step Hi SLoad a.
    destruct ds as [|[|[|ds]]]; cbn [Nat.eqb]; finish HI Hi.
  - (* WCasP2R *)
    destruct ds as [|[|[|ds]]]; cbn [Nat.eqb]; intros E; injection E as <-.
    + simple_step Hi WLoad a. finish HI Hi.
    + simple_step Hi WLoad a. finish HI Hi.
    + simple_step Hi Done a. finish HI Hi.
    + simple_step Hi WLoad a. finish HI Hi.
  - (* SLoad *)
    destruct ds as [|[|ds]]; cbn [Nat.leb]; intros E; injection E as <-.
    + simple_step Hi STry a. finish HI Hi.
    + simple_step Hi STry a. finish HI Hi.
    + simple_step Hi Done a. finish HI Hi.
  - (* STry *)
    destruct lock; intros E; injection E as <-.
    + simple_step Hi Done a. finish HI Hi.
    + simple_step Hi SLoad2 a. finish HI Hi.
  - (* SLoad2 *)
    destruct ds as [|[|ds]]; cbn [Nat.leb]; intros E; injection E as <-.
    + simple_step Hi SStore a. finish HI Hi.
    + simple_step Hi SStore a. finish HI Hi.
    + simple_step Hi SUnlockRet a. finish HI Hi.
  - (* SUnlockRet *) intros E; injection E as <-. simple_step Hi Done a. finish HI Hi.
  - (* SStore *) intros E; injection E as <-. simple_step Hi SSpawn a. finish HI Hi.
  - (* SSpawn *)
    intros E; injection E as <-.
    open_inv HI.
    match goal with |- context [ntok0 (?l ++ [?t])] =>
      destruct (n_spawn l t) as [Hm Hu];
      match l with set_nth _ (?p', ?a') _ => destruct (n_step _ _ _ _ p' a' Hi) as [Hn Ht] end
    end.
    pose_counts Hn; clear Hn. pose_counts Hm; clear Hm. simp_counts.
    split; [lia|]. split; [lia|]. split; [lia|]. split; [lia|]. split; [lia|]. split; [lia|].
    apply ptr_spawn with (a := a); assumption.
  - (* SCas *)
    destruct (nth_error ths a) as [[tp [|ta]]|] eqn:Ha; intros E; injection E as <-.
    + (* the token is free: take it, keep the lock until SUnlock *)
      assert (Htp : tp = DTry \/ tp = DCas).
      { unfold CInv in HI. cbn [ths_of snd] in HI. destruct HI as (_ & _ & _ & _ & _ & _ & I7). exact (I7 i a Hi tp Ha). }
      assert (Hia : i <> a) by (intros ->; rewrite Hi in Ha; injection Ha as E _; destruct Htp as [-> | ->]; discriminate E).
      assert (Hi' : nth_error (set_nth a (tp, 1) ths) i = Some (SCas, a)) by (rewrite nth_error_set_nth_neq by lia; exact Hi).
      destruct (n_step _ _ _ _ tp 1 Ha) as [Hn Ht].
      destruct (n_step _ _ _ _ SUnlock 1 Hi') as [Hn2 Ht2].
      pose_counts Hn; clear Hn. pose_counts Hn2; clear Hn2.
      open_inv HI.
      destruct Htp as [-> | ->]; simp_counts.
      * split; [lia|]. split; [lia|]. split; [lia|]. split; [lia|]. split; [lia|]. split; [lia|].
        apply ptr_cas; assumption.
      * split; [lia|]. split; [lia|]. split; [lia|]. split; [lia|]. split; [lia|]. split; [lia|].
        apply ptr_cas; assumption.
    + simple_step Hi Done 1. finish HI Hi.
    + simple_step Hi Done 1. finish HI Hi.
  - (* SUnlock *) intros E; injection E as <-. simple_step Hi Done a. finish HI Hi.
  - (* DTry *)
    destruct lock; intros E; injection E as <-.
    + simple_step Hi DCas a. destruct a as [|a]; simp_counts; open_inv HI; simp_counts;
        (split; [lia|]; split; [lia|]; split; [lia|]; split; [lia|]; split; [lia|]; split; [lia|];
         apply (ptr_step _ _ _ _ _ _ I7 Hi); [discriminate|intros E; split; [exact E|intros _; right; reflexivity]]).
    + simple_step Hi MStore a. destruct a as [|a]; simp_counts.
      * exfalso. open_inv HI. simp_counts. pose proof (cnt_ge tok0 ths i (DTry, 0) Hi eq_refl). unfold ntok0 in *. lia.
      * open_inv HI. simp_counts.
        split; [lia|]; split; [lia|]; split; [lia|]; split; [lia|]; split; [lia|]; split; [lia|].
        apply (ptr_step _ _ _ _ _ _ I7 Hi); [discriminate|intros E; discriminate E].
  - (* DCas *)
    destruct a as [|a]; cbn [Nat.eqb]; intros E; injection E as <-.
    + simple_step Hi MStore 1. open_inv HI. simp_counts.
      split; [lia|]; split; [lia|]; split; [lia|]; split; [lia|]; split; [lia|]; split; [lia|].
      apply (ptr_step _ _ _ _ _ _ I7 Hi); [discriminate|intros E; discriminate E].
    + simple_step Hi DLock (S a). open_inv HI. simp_counts.
      split; [lia|]; split; [lia|]; split; [lia|]; split; [lia|]; split; [lia|]; split; [lia|].
      apply (ptr_step _ _ _ _ _ _ I7 Hi); [discriminate|intros E; discriminate E].
  - (* DLock *) destruct lock; [discriminate|]. intros E; injection E as <-. simple_step Hi MStore a. finish HI Hi.
  - (* CLock *) destruct lock; [discriminate|]. intros E; injection E as <-. simple_step Hi MStore a. finish HI Hi.
  - (* MStore *) intros E; injection E as <-. simple_step Hi MDrain a. finish HI Hi.
  - (* MDrain *)
    destruct wb as [|wb]; intros E; injection E as <-.
    + simple_step Hi MLoad a. finish HI Hi.
    + simple_step Hi MDrain a. finish HI Hi.
  - (* MLoad *)
    destruct ds as [|[|[|ds]]]; cbn [Nat.eqb]; intros E; injection E as <-.
    + simple_step Hi MStoreReq a. finish HI Hi.
    + simple_step Hi MStoreReq a. finish HI Hi.
    + simple_step Hi MCas a. finish HI Hi.
    + simple_step Hi MStoreReq a. finish HI Hi.
  - (* MCas *)
    destruct ds as [|[|[|ds]]]; cbn [Nat.eqb]; intros E; injection E as <-.
    + simple_step Hi MStoreReq a. finish HI Hi.
    + simple_step Hi MStoreReq a. finish HI Hi.
    + simple_step Hi MUnlock a. finish HI Hi.
    + simple_step Hi MStoreReq a. finish HI Hi.
  - (* MStoreReq *) intros E; injection E as <-. simple_step Hi MUnlock a. finish HI Hi.
  - (* MUnlock *) intros E; injection E as <-. simple_step Hi RLoad a. finish HI Hi.
  - (* RLoad *)
    destruct ds as [|[|ds]]; cbn [Nat.eqb]; intros E; injection E as <-.
    + simple_step Hi Done a. finish HI Hi.
    + simple_step Hi SLoad a. finish HI Hi.
    + simple_step Hi Done a. finish HI Hi.
  - (* Done *) discriminate.
  - (* RdLoad *)
    destruct ds as [|[|ds]]; [destruct (Nat.eqb a 0)| |]; intros E; injection E as <-.
    + simple_step Hi Done a. finish HI Hi.
    + simple_step Hi SLoad a. finish HI Hi.
    + simple_step Hi SLoad a. finish HI Hi.
    + simple_step Hi Done a. finish HI Hi.
  - (* GLock *) destruct lock; [discriminate|]. intros E; injection E as <-. simple_step Hi GLoad a. finish HI Hi.
  - (* GLoad *)
    destruct ds as [|[|ds]]; cbn [Nat.eqb]; intros E; injection E as <-.
    + simple_step Hi MUnlock a. finish HI Hi.
    + simple_step Hi MStore a. finish HI Hi.
    + simple_step Hi MUnlock a. finish HI Hi.
  - (* ILock *) destruct lock; [discriminate|]. intros E; injection E as <-. simple_step Hi IDrain a. finish HI Hi.
  - (* IDrain *)
    destruct wb as [|wb]; intros E; injection E as <-.
    + simple_step Hi MUnlock a. finish HI Hi.
    + simple_step Hi IDrain a. finish HI Hi.
  - (* FTry *)
    destruct a as [|[|[|a]]]; intros E; injection E as <-.
    + simple_step Hi CLock 0. finish HI Hi.
    + simple_step Hi CLock 1. finish HI Hi.
    + simple_step Hi WPush 2. finish HI Hi.
    + open_inv HI.
      match goal with |- context [ntok0 (?l ++ [?t])] =>
        destruct (n_spawn l t) as [Hm Hu];
        match l with set_nth _ (?p', ?a') _ => destruct (n_step _ _ _ _ p' a' Hi) as [Hn Ht] end
      end.
      pose_counts Hn; clear Hn. pose_counts Hm; clear Hm. simp_counts.
      split; [lia|]. split; [lia|]. split; [lia|]. split; [lia|]. split; [lia|]. split; [lia|].
      apply ptr_retry; assumption.
Qed.

(* ------------------------------------------------------------------ *)
(* initial configurations, reachable configurations, terminal configurations *)

Lemma cnt_repeat f t n : cnt f (repeat t n) = n * b2n (f t).
Proof. induction n as [|n IH]; [reflexivity|]. cbn [repeat]. rewrite cnt_cons, IH. lia. Qed.

Lemma CInv_init w c : CInv (dinit w c).
Proof.
  unfold CInv, dinit. cbn [ds_of lock_of wb_of ths_of mk fst snd].
  assert (Hn : forall q, n_ (repeat (WPush, 0) w ++ repeat (CLock, 0) c) q = w * b2n (pceq WPush q) + c * b2n (pceq CLock q)).
  { intros q. unfold n_. rewrite cnt_app, !cnt_repeat. reflexivity. }
  assert (Ht : ntok0 (repeat (WPush, 0) w ++ repeat (CLock, 0) c) = 0).
  { unfold ntok0. rewrite cnt_app, !cnt_repeat. cbn [tok0 fst snd pceq pc_to_nat Nat.eqb orb andb b2n]. lia. }
  unfold n_owner, n_mid, n_A, n_W1, n_C. rewrite !Hn, Ht.
  cbn [b2n pceq pc_to_nat Nat.eqb].
  split; [lia|]. split; [lia|]. split; [lia|]. split; [lia|]. split; [lia|]. split; [lia|].
  intros i a Hi. exfalso.
  apply nth_error_In in Hi. apply in_app_or in Hi. destruct Hi as [Hi|Hi]; apply repeat_spec in Hi; discriminate Hi.
Qed.

Lemma CInv_initR w c rd rf : CInv (dinitR w c rd rf).
Proof.
  unfold CInv, dinitR. cbn [ds_of lock_of wb_of ths_of mk fst snd].
  set (l := repeat (WPush, 0) w ++ repeat (CLock, 0) c ++ repeat (RdLoad, 0) rd ++ repeat (RdLoad, 1) rf).
  assert (Hn : forall q, n_ l q = w * b2n (pceq WPush q) + c * b2n (pceq CLock q) + rd * b2n (pceq RdLoad q) + rf * b2n (pceq RdLoad q)).
  { intros q. unfold n_, l. rewrite !cnt_app, !cnt_repeat. unfold at_pc. cbn [fst]. lia. }
  assert (Ht : ntok0 l = 0).
  { unfold ntok0, l. rewrite !cnt_app, !cnt_repeat. cbn [tok0 fst snd pceq pc_to_nat Nat.eqb orb andb b2n]. lia. }
  unfold n_owner, n_mid, n_A, n_W1, n_C. rewrite !Hn, Ht.
  cbn [b2n pceq pc_to_nat Nat.eqb].
  split; [lia|]. split; [lia|]. split; [lia|]. split; [lia|]. split; [lia|]. split; [lia|].
  intros i a Hi. exfalso. apply nth_error_In in Hi. unfold l in Hi.
  repeat (apply in_app_or in Hi; destruct Hi as [Hi|Hi]; [apply repeat_spec in Hi; discriminate Hi|]).
  apply repeat_spec in Hi. discriminate Hi.
Qed.

Theorem CInv_reachable w c s : reachable (dinit w c) s -> CInv s.
Proof.
  intros R. induction R as [|s i s' R IH Hs]; [apply CInv_init|]. exact (CInv_step s i s' IH Hs).
Qed.

Lemma terminal_no_step s : terminal s = true -> forall j, dstep s j = None.
Proof.
  unfold terminal, succs. intros H j.
  destruct (dstep s j) as [s'|] eqn:E; [|reflexivity]. exfalso.
  assert (Hj : j < length (ths_of s)).
  { unfold dstep in E. destruct (nth_error (ths_of s) j) eqn:En; [|discriminate]. apply nth_error_Some. congruence. }
  assert (Hin : In s' (omap (dstep s) (seq 0 (length (ths_of s))))).
  { apply elem_of_list_In. apply elem_of_list_omap. exists j. split; [|exact E]. apply elem_of_list_In. apply in_seq. lia. }
  destruct (omap (dstep s) (seq 0 (length (ths_of s)))); [destruct Hin|discriminate H].
Qed.

Theorem CInv_terminal_drained s : CInv s -> terminal s = true -> drained s = true.
Proof.
  intros HI T. pose proof (terminal_no_step s T) as Hno.
  destruct s as [[[ds lock] wb] ths].
  unfold CInv in HI. cbn [ds_of lock_of wb_of ths_of fst snd] in HI.
  destruct HI as (I1 & I2 & I3 & I4 & I5 & I6 & I7).
  assert (Hen : forall j p a, nth_error ths j = Some (p, a) -> p <> Done -> (p = DLock \/ p = CLock \/ p = GLock \/ p = ILock) /\ lock = true).
  { intros j p a Hj Hd. destruct lock.
    - split; [|reflexivity]. destruct (pc_eq_dec p DLock) as [->|N1]; [left; reflexivity|].
      destruct (pc_eq_dec p CLock) as [->|N2]; [right; left; reflexivity|].
      destruct (pc_eq_dec p GLock) as [->|N3]; [right; right; left; reflexivity|].
      destruct (pc_eq_dec p ILock) as [->|N4]; [right; right; right; reflexivity|]. exfalso.
      destruct (step_enabled (ds, true, wb, ths) j p a Hj Hd) as (s' & Hs); [intros [->|[->|[->| ->]]]; contradiction|].
      rewrite Hno in Hs. discriminate Hs.
    - exfalso. destruct (step_enabled (ds, false, wb, ths) j p a Hj Hd) as (s' & Hs); [reflexivity|].
      rewrite Hno in Hs. discriminate Hs. }
  (* the lock is free: otherwise its owner could move *)
  assert (Hlock : lock = false).
  { destruct lock; [|reflexivity]. exfalso. cbn [b2n] in I2.
    assert (Hex : 1 <= n_owner ths \/ 1 <= ntok0 ths) by lia.
    destruct Hex as [Hex|Hex].
    - unfold n_owner in Hex.
      assert (exists q, 1 <= n_ ths q /\ q <> Done /\ q <> DLock /\ q <> CLock /\ q <> GLock /\ q <> ILock) as (q & Hq & Q1 & Q2 & Q3 & Q4 & Q5).
      { destruct (Nat.eq_dec (n_ ths SLoad2) 0); [|exists SLoad2; repeat split; [lia|discriminate..]].
        destruct (Nat.eq_dec (n_ ths SUnlockRet) 0); [|exists SUnlockRet; repeat split; [lia|discriminate..]].
        destruct (Nat.eq_dec (n_ ths SStore) 0); [|exists SStore; repeat split; [lia|discriminate..]].
        destruct (Nat.eq_dec (n_ ths SSpawn) 0); [|exists SSpawn; repeat split; [lia|discriminate..]].
        destruct (Nat.eq_dec (n_ ths SUnlock) 0); [|exists SUnlock; repeat split; [lia|discriminate..]].
        destruct (Nat.eq_dec (n_ ths MStore) 0); [|exists MStore; repeat split; [lia|discriminate..]].
        destruct (Nat.eq_dec (n_ ths MDrain) 0); [|exists MDrain; repeat split; [lia|discriminate..]].
        destruct (Nat.eq_dec (n_ ths MLoad) 0); [|exists MLoad; repeat split; [lia|discriminate..]].
        destruct (Nat.eq_dec (n_ ths MCas) 0); [|exists MCas; repeat split; [lia|discriminate..]].
        destruct (Nat.eq_dec (n_ ths MStoreReq) 0); [|exists MStoreReq; repeat split; [lia|discriminate..]].
        destruct (Nat.eq_dec (n_ ths MUnlock) 0); [|exists MUnlock; repeat split; [lia|discriminate..]].
        destruct (Nat.eq_dec (n_ ths GLoad) 0); [|exists GLoad; repeat split; [lia|discriminate..]].
        exists IDrain. repeat split; [lia|discriminate..]. }
      destruct (cnt_pos _ _ Hq) as (j & [p a] & Hj & Hp). unfold at_pc in Hp. cbn [fst] in Hp. apply pceq_eq in Hp. subst p.
      destruct (Hen j q a Hj Q1) as [[E|[E|[E|E]]] _]; contradiction.
    - destruct (cnt_pos _ _ Hex) as (j & [p a] & Hj & Hp). unfold tok0 in Hp. cbn [fst snd] in Hp.
      apply andb_true_iff in Hp. destruct Hp as [Hp _]. apply orb_true_iff in Hp.
      destruct Hp as [Hp|Hp]; apply pceq_eq in Hp; subst p;
        (destruct (Hen j _ a Hj ltac:(discriminate)) as [[E|[E|[E|E]]] _]; discriminate E). }
  subst lock.
  assert (Hdone : forall j p a, nth_error ths j = Some (p, a) -> p = Done).
  { intros j p a Hj. destruct (pc_eq_dec p Done) as [E|N]; [exact E|]. destruct (Hen j p a Hj N) as [_ E]. discriminate E. }
  assert (Hz : forall q, q <> Done -> n_ ths q = 0).
  { intros q Hq. unfold n_. apply cnt_zero. intros j [p a] Hj. unfold at_pc. cbn [fst].
    rewrite (Hdone j p a Hj). destruct (pceq Done q) eqn:E; [|reflexivity]. apply pceq_eq in E. subst q. contradiction. }
  unfold n_A, n_W1, n_C in *.
  pose proof (Hz WPush ltac:(discriminate)). pose proof (Hz WLoad ltac:(discriminate)). pose proof (Hz WCasReq ltac:(discriminate)). pose proof (Hz WCasP2R ltac:(discriminate)). pose proof (Hz SLoad ltac:(discriminate)). pose proof (Hz STry ltac:(discriminate)). pose proof (Hz SLoad2 ltac:(discriminate)). pose proof (Hz SUnlockRet ltac:(discriminate)). pose proof (Hz SStore ltac:(discriminate)). pose proof (Hz SSpawn ltac:(discriminate)). pose proof (Hz SCas ltac:(discriminate)). pose proof (Hz SUnlock ltac:(discriminate)). pose proof (Hz DTry ltac:(discriminate)). pose proof (Hz DCas ltac:(discriminate)). pose proof (Hz DLock ltac:(discriminate)). pose proof (Hz CLock ltac:(discriminate)). pose proof (Hz MStore ltac:(discriminate)). pose proof (Hz MDrain ltac:(discriminate)). pose proof (Hz MLoad ltac:(discriminate)). pose proof (Hz MCas ltac:(discriminate)). pose proof (Hz MStoreReq ltac:(discriminate)). pose proof (Hz MUnlock ltac:(discriminate)). pose proof (Hz RLoad ltac:(discriminate)). pose proof (Hz RdLoad ltac:(discriminate)). pose proof (Hz GLock ltac:(discriminate)). pose proof (Hz GLoad ltac:(discriminate)). pose proof (Hz ILock ltac:(discriminate)). pose proof (Hz IDrain ltac:(discriminate)). pose proof (Hz FTry ltac:(discriminate)).
  assert (ds = 0) by lia. subst ds. assert (wb = 0) by lia. subst wb.
  unfold drained. cbn [ds_of lock_of wb_of ths_of fst snd Nat.eqb negb andb].
  rewrite !andb_true_r. unfold all_done. apply forallb_forall. intros [p a] Hin.
  apply In_nth_error in Hin. destruct Hin as (j & Hj). cbn [fst]. rewrite (Hdone j p a Hj). apply bool_decide_eq_true. reflexivity.
Qed.

(* the unbounded theorem: any number of writers and CleanUp callers, every schedule *)
Theorem drained_any_population w c : forall sched,
  let s := run_sched (dinit w c) sched in terminal s = true -> drained s = true.
Proof.
  intros sched s T. apply CInv_terminal_drained; [|exact T].
  apply (CInv_reachable w c). apply run_sched_reachable. constructor.
Qed.

Theorem CInv_reachableR w c rd rf s : reachable (dinitR w c rd rf) s -> CInv s.
Proof.
  intros R. induction R as [|s i s' R IH Hs]; [apply CInv_initR|]. exact (CInv_step s i s' IH Hs).
Qed.

(* ... and with any number of readers (whose read was buffered, or found the read buffer full) *)
Theorem drained_any_population_with_readers w c rd rf : forall sched,
  let s := run_sched (dinitR w c rd rf) sched in terminal s = true -> drained s = true.
Proof.
  intros sched s T. apply CInv_terminal_drained; [|exact T].
  apply (CInv_reachableR w c rd rf). apply run_sched_reachable. constructor.
Qed.

Lemma CInv_initA w c rd rf g iv : CInv (dinitA w c rd rf g iv).
Proof.
  unfold CInv, dinitA. cbn [ds_of lock_of wb_of ths_of mk fst snd].
  set (l := repeat (WPush, 0) w ++ repeat (CLock, 0) c ++ repeat (RdLoad, 0) rd ++ repeat (RdLoad, 1) rf ++
            repeat (GLock, 0) g ++ repeat (ILock, 0) iv).
  assert (Hn : forall q, n_ l q = w * b2n (pceq WPush q) + c * b2n (pceq CLock q) + rd * b2n (pceq RdLoad q) + rf * b2n (pceq RdLoad q) +
                          g * b2n (pceq GLock q) + iv * b2n (pceq ILock q)).
  { intros q. unfold n_, l. rewrite !cnt_app, !cnt_repeat. unfold at_pc. cbn [fst]. lia. }
  assert (Ht : ntok0 l = 0).
  { unfold ntok0, l. rewrite !cnt_app, !cnt_repeat. cbn [tok0 fst snd pceq pc_to_nat Nat.eqb orb andb b2n]. lia. }
  unfold n_owner, n_mid, n_A, n_W1, n_C. rewrite !Hn, Ht.
  cbn [b2n pceq pc_to_nat Nat.eqb].
  split; [lia|]. split; [lia|]. split; [lia|]. split; [lia|]. split; [lia|]. split; [lia|].
  intros i a Hi. exfalso. apply nth_error_In in Hi. unfold l in Hi.
  repeat (apply in_app_or in Hi; destruct Hi as [Hi|Hi]; [apply repeat_spec in Hi; discriminate Hi|]).
  apply repeat_spec in Hi. discriminate Hi.
Qed.

Theorem CInv_reachableA w c rd rf g iv s : reachable (dinitA w c rd rf g iv) s -> CInv s.
Proof.
  intros R. induction R as [|s i s' R IH Hs]; [apply CInv_initA|]. exact (CInv_step s i s' IH Hs).
Qed.

(* ... and with any number of callers of the other operations that take the eviction lock: GetMaximum /
   WeightedSize (maintenance only when the status is "required") and InvalidateAll (its own drain of the
   write buffer); each ends with Unlock followed by rescheduleCleanUpIfIncomplete *)
Theorem drained_any_population_with_lock_holders w c rd rf g iv : forall sched,
  let s := run_sched (dinitA w c rd rf g iv) sched in terminal s = true -> drained s = true.
Proof.
  intros sched s T. apply CInv_terminal_drained; [|exact T].
  apply (CInv_reachableA w c rd rf g iv). apply run_sched_reachable. constructor.
Qed.

Lemma cnt_map_ftry f (fs : list nat) : (forall a, f (FTry, a) = false) -> cnt f (map (fun a => (FTry, a)) fs) = 0.
Proof. intros H. induction fs as [|a fs IH]; [reflexivity|]. cbn [map]. rewrite cnt_cons, H, IH. reflexivity. Qed.

Lemma cnt_map_ftry_at (fs : list nat) : cnt (at_pc FTry) (map (fun a => (FTry, a)) fs) = length fs.
Proof. induction fs as [|a fs IH]; [reflexivity|]. cbn [map length]. rewrite cnt_cons, IH. reflexivity. Qed.

Lemma CInv_initF w c rd rf g iv fs : CInv (dinitF w c rd rf g iv fs).
Proof.
  unfold CInv, dinitF. cbn [ds_of lock_of wb_of ths_of mk fst snd].
  set (l := repeat (WPush, 0) w ++ repeat (CLock, 0) c ++ repeat (RdLoad, 0) rd ++ repeat (RdLoad, 1) rf ++
            repeat (GLock, 0) g ++ repeat (ILock, 0) iv ++ map (fun a => (FTry, a)) fs).
  assert (Hn : forall q, q <> FTry -> n_ l q = w * b2n (pceq WPush q) + c * b2n (pceq CLock q) + rd * b2n (pceq RdLoad q) + rf * b2n (pceq RdLoad q) +
                          g * b2n (pceq GLock q) + iv * b2n (pceq ILock q)).
  { intros q Hq. unfold n_, l. rewrite !cnt_app, !cnt_repeat. rewrite cnt_map_ftry.
    - unfold at_pc. cbn [fst]. lia.
    - intros a. unfold at_pc. cbn [fst]. destruct (pceq FTry q) eqn:E; [|reflexivity]. apply pceq_eq in E. congruence. }
  assert (Ht : ntok0 l = 0).
  { unfold ntok0, l. rewrite !cnt_app, !cnt_repeat. rewrite cnt_map_ftry by (intros a; reflexivity).
    cbn [tok0 fst snd pceq pc_to_nat Nat.eqb orb andb b2n]. lia. }
  unfold n_owner, n_mid, n_A, n_W1, n_C.
  rewrite !Hn by discriminate. rewrite Ht.
  cbn [b2n pceq pc_to_nat Nat.eqb].
  split; [lia|]. split; [lia|]. split; [lia|]. split; [lia|]. split; [lia|]. split; [lia|].
  intros i a Hi. exfalso. apply nth_error_In in Hi. unfold l in Hi.
  repeat (apply in_app_or in Hi; destruct Hi as [Hi|Hi]; [apply repeat_spec in Hi; discriminate Hi|]).
  apply in_map_iff in Hi. destruct Hi as (x & Hx & _). discriminate Hx.
Qed.

Theorem CInv_reachableF w c rd rf g iv fs s : reachable (dinitF w c rd rf g iv fs) s -> CInv s.
Proof.
  intros R. induction R as [|s i s' R IH Hs]; [apply CInv_initF|]. exact (CInv_step s i s' IH Hs).
Qed.

(* ... and with any number of writers that find the write buffer full any number of times — each refusal followed
   by a scheduleDrainBuffers call — and then either get their event accepted or, the retries exhausted, run the
   maintenance themselves (afterWriteTask's caller-runs fallback) *)
Theorem drained_any_population_with_fallback w c rd rf g iv fs : forall sched,
  let s := run_sched (dinitF w c rd rf g iv fs) sched in terminal s = true -> drained s = true.
Proof.
  intros sched s T. apply CInv_terminal_drained; [|exact T].
  apply (CInv_reachableF w c rd rf g iv fs). apply run_sched_reachable. constructor.
Qed.
