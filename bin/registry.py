"""Which engines serve which property (see DESIGN.md section 4.2 / 5)."""

SKETCH = dict(engine="sketch", scale_quick=3, scale_thorough=12, timeout_quick=600, timeout_thorough=3000)

SEQ = dict(engine="seq", scale_quick=10, scale_thorough=20, timeout_quick=900, timeout_thorough=6000)

SEQ_RULE = ("seq engine: 96 cases per unit of scale cycling through the 12 feature combinations (unbounded/MaximumSize/"
            "MaximumWeight x expiry none|custom/creating/writing/accessing, refresh on in half of the cases) with random "
            "InitialCapacity, 150-350 operations each over 3-6 keys with unique values, clock steps from 0 ns to 2^52 ns, "
            "durations from 1 ns to MaxInt64, queued same-goroutine executor drained at random points; after every operation "
            "the per-key entries, physical size and statistics are compared with the extracted concrete model and abstract map; "
            "distinct_nontrivial = (number of operation kinds exercised) x (number of distinct distribution buckets)")
SEQ_ASSUME = ["calculators depend on (key, value, current duration) only; creation durations are positive and independent of the current duration (cfg_ok)",
              "clock values in [0, MaxInt64); the loader does not move the clock (now2 = now)",
              "same-goroutine executor that runs a submitted task after the submitting operation returned",
              "eviction choices are inputs: automatic removals are taken from the implementation's deletion events and checked for legality"]

MAINT = dict(engine="maint", scale_quick=5, scale_thorough=20, timeout_quick=900, timeout_thorough=6000)
MAINT_RULE = ("maint engine: the seq engine restricted to one index action per operation (no bulk/refresh/InvalidateAll), size- or weight-bounded and/or "
              "expiring caches, 4-8 keys and maxima <= 12 (the hill climber's amount truncates to zero) in five cases out of six; every sixth case has a maximum of 16-96, heterogeneous weights (0-9), 1400-2000 operations and alternating phases of few keys (hits) and many keys (misses), so that the climber's sampled hit rate rises and falls and its amount - read at value hook 11 in policy.climb and passed to the model as an input of that maintenance run - moves entries between window, probation and protected; the hook at the start of cache.maintenance marks "
              "every maintenance run; in a third of the cases queued maintenance is run rarely so that write events pile up, and the write buffer is then re-queued in another order (swap / reverse / shuffle, "
              "export VerifPermuteWriteBuffer) as when the writers are different goroutines; the extracted Maint/Policy/Wheel/Sketch model replays tasks, read buffer, sweeps and evictions in a closed loop (no oracle "
              "input except key hashes and the window/protected maxima) and is compared after every operation on all deques, counters, wheel buckets and node states; "
              "every automatic removal must be predicted exactly; C04/C05/C13 view oracles are evaluated on the implementation at every quiescent point")
MAINT_ASSUME = ["single goroutine; the read buffer is one ring (no contention)", "the hill climber's amount and the initial window/protected maxima are inputs read from the implementation (floating point); what is then moved is the model's",
                "window / protected maxima are read from the implementation after SetMaximum (floating point)"]

STRIPE = dict(engine="stripe", scale_quick=3, scale_thorough=30, timeout_quick=600, timeout_thorough=3000)
RING = dict(engine="ring", scale_quick=6, scale_thorough=40, timeout_quick=600, timeout_thorough=3000)
MPSC = dict(engine="mpsc", scale_quick=4, scale_thorough=30, timeout_quick=600, timeout_thorough=3000)

HMAP = dict(engine="hmap", scale_quick=3, scale_thorough=12, timeout_quick=900, timeout_thorough=6000)

LOAD = dict(engine="load", scale_quick=2, scale_thorough=15, timeout_quick=900, timeout_thorough=6000)
LOAD_RULE = ("load engine; plus 24 bulk windows per unit of scale (a Get or BulkGet of k in flight, an overlapping BulkGet of {j,k} / {k,m} whose own loader volunteers k or not, the joined load ending in value / not-found / error: the loader must not be asked for k, the BulkGet must not return before the joined load, must hand out its result, and the cache must end as the model's LVolunteer / LFinish events leave it); main part (half of the joiners of an in-flight load are single-key BulkGet calls; a Clock whose next sample can run a callback places a late Get of the same key between a loader's return and the publication of its result: it must join, not load): 120 scripted cases per unit of scale over 1-3 keys, 6-20 macro steps each: loader-backed Get / explicit Refresh callers (goroutines), a gated loader whose every invocation "
             "the harness finishes when and how it chooses (value / error / not-found / panic), explicit writes (Set, SetIfAbsent, Compute) and invalidations placed before, during and after loads; "
             "every step is an event of the Coq protocol model, which must predict who joins, who loads, what is installed, who is released and each key's value after every step; "
             "distinct_nontrivial = distinct (event kind, join expected?, outcome, superseded?, number of waiters) combinations")
LOAD_ASSUME = ["atomicity of hashmap.Compute sections (C15) and of the calls table's get-or-create", "eviction/expiration of a key being loaded is modelled as an invalidation event; the engine exercises it through Invalidate only",
               "timing is used only to decide that a goroutine is blocked (25 ms) — a slow machine can hide a violation, not invent one"]

PERIODIC = dict(engine="periodic", scale_quick=3, scale_thorough=20, timeout_quick=600, timeout_thorough=3000, model=False)
LIN = dict(engine="lin", scale_quick=8, scale_thorough=40, timeout_quick=900, timeout_thorough=6000)
ADDER = dict(engine="adder", scale_quick=3, scale_thorough=30, timeout_quick=600, timeout_thorough=3000)
MID = dict(engine="mid", scale_quick=10, scale_thorough=100, timeout_quick=600, timeout_thorough=3000, model=False)
MID_RULE = ("mid engine (implementation oracles): 400 cases per unit of scale, 2-5 rounds each, on caches that are size-bounded (count or weight) and/or expiring (write / access reset): index actions (Set, Invalidate, Compute, a read) made INSIDE a maintenance run of CleanUp or SetMaximum - from the Clock sample expireNodes takes after the write buffer was drained, and from hook point 7 in evictNode between two removals of the pass - so that a node the run is about to expire or evict has been replaced or invalidated while the task saying so is still in the write buffer; "
            "after explicit CleanUps until the status is idle, at a clock at least two ticks away from every deadline: EstimatedSize = entries iterated = nodes in the table (all alive) = nodes in the deques = nodes in the timer wheel, WeightedSize = their weights, Hottest/Coldest = the entries present, bound respected, OnDeletion events = OnAtomicDeletion events (key, value, cause), each written value present or reported exactly once; long after every deadline an expiring cache is empty")
TBL = dict(engine="tbl", scale_quick=4, scale_thorough=40, timeout_quick=600, timeout_thorough=3000)
TBL_RULE = ("tbl engine (the tie between the Coq model of the table's concurrency protocol, HashMapConc.v, and map.go): 60 schedules per unit of scale over 3-7 concurrent Compute (set / delete / add / keep), Get and Range calls on a table "
            "prepared in one of three stages - 121 keys in 32 buckets so that an insert into a full chain must grow the table first; a 64-bucket table emptied to 3 keys so that deletes shrink it (or take the flag and give up); a handful of keys - "
            "every call parks at the protocol's hook points (Compute: before/after the root bucket's Lock, before the newer-table check, after both checks, between the Unlock of an insert/delete and the adjustment of the size counter; resize: before the CAS on the flag, before the copy, before each source bucket some call's key lives in, "
            "before the publication, before the flag is cleared; Get: after the table load; Range: after the table load and before the Lock of each bucket some call's key lives in); exactly one goroutine is resumed at a time and runs to its next point, to its return, or until the runtime reports it blocked on a bucket lock or on the resize condition; "
            "after every macro step every thread's position, the table length, the resizing flag, the binding each invoked function was given, each Get's value and, key by key, what each finished Range yielded must be the model's, and at the end the content and Size (against both the model's table and the model's size counter); "
            "implementation-only oracles: each function invoked exactly once, on the binding a sequential map (functions applied in invocation order) has, final Range/Size equal to that map, no deadlock, a Range yields no key twice, every key bound during its whole duration, and only bindings the key had meanwhile")
SCHED = dict(engine="sched", scale_quick=3, scale_thorough=30, timeout_quick=600, timeout_thorough=3000)
DRAIN = dict(engine="drain", scale_quick=6, scale_thorough=30, timeout_quick=900, timeout_thorough=6000, model=False)

PROPS = {
    "C02": dict(engines=[LIN, TBL], also_reports=["C02", "C15"],
                rule=TBL_RULE + "; lin engine: 1500 cases per unit of scale; 2-6 free-running goroutines x 2-6 operations (Set, SetIfAbsent, GetIfPresent, Compute/ComputeIfAbsent/ComputeIfPresent with "
                     "write/invalidate/cancel, Invalidate) on 1-3 keys of one cache, unbounded or with MaximumSize 1-3 so that it evicts constantly, a churner goroutine resizing the table underneath; "
                     "invocation/response stamped with a logical clock, callbacks recording invocations and arguments, automatic removals recorded at the OnAtomicDeletion instant; "
                     "per key a Wing-Gong search for a linearization against the extracted sequential model; distinct_nontrivial = distinct (bounded, keys, goroutines, ops) shapes",
                assumptions=["atomicity of hashmap.Get / Compute (C15)", "no expiry calculator (the read-extension of deadlines is a second atomic access)",
                             "loader-backed Get is covered by the C08/C09 protocol engine", "histories longer than 60 events per key are not searched (none occur)"]),
    "C14": dict(engines=[SCHED, DRAIN],
                rule="sched engine (the tie between the Coq drain-status model and the code): 150 schedules per unit of scale (plus two scripted ones) over 1-3 writers, 0-2 readers (hits on a pre-inserted entry: afterRead -> shouldDrainBuffers), 0-2 explicit CleanUp callers and every maintenance task they spawn; "
                     "every goroutine parks at the protocol's hook points (before/after the status load in scheduleAfterWrite, before TryLock, after TryLock, after the executor call, start of the task, start of "
                     "maintenance, before the final status transition, start of rescheduleCleanUpIfIncomplete) and exactly one is resumed at a time until its next hook point, the end of its call, or until it "
                     "blocks on the eviction lock (decided from the goroutine's wait reason in the runtime stack dump, not from timing); the executor is the harness's (one goroutine per task like the default, "
                     "plus an end-of-task signal) with the default executor's rescheduling protocol; the replayer executes the same macro steps (DrainMacro.macro_step, proved to be small-step runs) on the extracted "
                     "model and compares the drain status, write-buffer size, lock and every thread's position after each; at the end: all threads finished => status idle, buffer empty, lock free; "
                     "drain engine: (a) 60 scripted protocol windows per unit of scale (V1-V7 in turn), reached by parking goroutines at hook points: V1 the maintainer parked before its final status "
                     "transition, a writer pushes, loads 'processing-to-idle' and is parked before acting on it, the maintainer finishes (idle), the writer resumes and must start over; V2 the same with "
                     "the writer's transition winning; V3 a writer holding a stale 'idle' while another writer runs a whole cycle; V4 writes made inside a Hottest/Coldest iteration; V5 the executor task waiting for the lock held by an explicit CleanUp; V6 the caller-runs fallback (write buffer of that cache shrunk to 4, eviction lock held from outside, a fifth writer exhausts its 100 retries, is parked inside its own maintenance run while one more write is recorded); V7 a write by another goroutine while InvalidateAll holds the eviction lock, past its own drain of the write buffer (reached through the Clock sample InvalidateAll takes under the lock; the clock's ticks never fire, so no periodic clean-up comes to the rescue); (b) 400 rounds per unit of scale with the DEFAULT executor: 1-6 writers (Set/SetIfAbsent/Invalidate bursts of 1-12 or 100-500 writes) and 0-2 readers on a cache of "
                     "maximum 2-21; hook points inside the protocol inject random yields/sleeps (4 perturbation modes); after the calls return NO further cache call is made: only atomic loads of the drain "
                     "status and write-buffer size until quiescent (3 s limit), then status idle, buffer empty, bound restored, every write linked in the policy, OnDeletion count = OnAtomicDeletion count; "
                     "distinct_nontrivial = distinct (writers, readers, perturbation, burst) combinations",
                assumptions=["the unbounded theorem is about configurations in which nothing can move; that every schedule is finite (fair termination) is not proved",
                             "the sched engine interleaves at hook-point granularity (9 points): interleavings inside one macro step (e.g. between the status store and the executor call) are covered by the small-step theorem only through the model",
                             "sync.Mutex, goroutine creation and the memory model of sync/atomic are modelled", "InvalidateAll and the 100-refusal caller-runs fallback are outside the model; readers are in the model (a reader that finds the read buffer full is covered by the theorem, the engine produces only buffered reads)"]),
    "C08": dict(engines=[LOAD], rule=LOAD_RULE, assumptions=LOAD_ASSUME),
    "C09": dict(engines=[LOAD], rule=LOAD_RULE, assumptions=LOAD_ASSUME),
    "C15": dict(engines=[HMAP, TBL],
                rule=TBL_RULE + "; hmap engine: (a) 6 sequential cases per unit of scale (size hints 0..3000), 1800-3300 operations each in fill/churn/drain/refill phases over 200-2000 keys with 15% of the keys "
                     "chosen to collide in one bucket under the table's current seed, Clear included; GOMAXPROCS(1) so that resize copies are sequential and the layout deterministic; every call replayed "
                     "on the extracted model with the table's own hashes; (b) 12 free-running rounds per unit of scale: 4-11 goroutines incrementing shared counters and inserting/deleting own keys while a reader "
                     "looks up stable keys and an iterator checks each stable key is yielded exactly once; (c) SWAR kernels on boundary and random words; "
                     "distinct_nontrivial = distinct (table length, phase) pairs reached",
                assumptions=["per-table hash seeds (maphash) are inputs read from the implementation", "the concurrency theorems (HashMapConcProofs.v) are about the protocol model: a table version is a key->binding store with one lock per root bucket (the layout inside a bucket chain is the sequential theorem's), a bucket's update, a bucket's copy and a Get's read of its key are one atomic step each, Clear is not in the protocol model",
                             "the tbl engine runs one goroutine at a time (every interleaving of the hook-to-hook macro steps is a schedule it can take; finer interleavings inside a macro step are exercised free-running only) and decides 'blocked' from the runtime's goroutine wait reasons (self-checked; the engine is skipped when the runtime words them differently)",
                             "resize copies run in one goroutine in the sequential part (GOMAXPROCS(1)); the parallel copy is exercised in the concurrent part only"]),
    "C16": dict(engines=[MPSC],
                rule="mpsc engine: every (initial, maximum) capacity pair from {2..128} x {4..128}; sequential random pushes/pops crossing every growth step and back, with producers "
                     "parked between the producer-index CAS and the slot store (hook) and pops issued meanwhile; indices/masks/buffer lengths compared with the extracted model after "
                     "every call; an offer made while another producer is parked inside resize (hooks 2-4, producer index odd) must wait and be accepted, for every capacity pair that can grow; free-running producers whose total stays below the maximum (no offer may be refused); "
                     "plus free-running runs of 1-8 producers against the consumer checked for exactly-once, per-producer order and the size bound; "
                     "distinct_nontrivial = distinct (accepted?, fill bucket, capacity) and stress configurations",
                assumptions=["sequential consistency of sync/atomic", "the parked-producer schedules have one producer in flight at a time; arbitrary interleavings are exercised free-running only"]),
    "C17": dict(engines=[RING, STRIPE],
                rule="stripe engine (the tie between the Coq model of the striped table and the code): 200 schedules per unit of scale over 2-8 concurrent Add calls on a fresh striped buffer (maximum 1-8 stripes); every Add parks at the "
                     "hook points of the table protocol (table load, cell load, loop head with its probe index, empty cell seen, inside/leaving stripe creation, after a failed ring add, inside/leaving the expansion, inside/leaving the table "
                     "creation) and inside ring.add just before its tail CAS, so that a second Add on the same ring makes that CAS fail (two thirds of the schedules are biased towards this contention: it is the only way an expansion is requested); "
                     "exactly one goroutine is resumed at a time; the replayer searches the model's inputs (ring.add outcome, fresh probe index, pre-check) for the shortest continuation that reproduces the observed busy flag, table length, number "
                     "of rings and every thread's position and probe index; at the end one DrainTo must deliver exactly the elements whose Add returned Success, each once, and equal the model's rings; ring engine: 1-4 producers on one ring, macro schedules of whole adds, adds parked between the tail CAS and the slot store (hook), resumptions and whole drains; "
                     "status, drained values, head, tail and slot occupancy compared with the extracted small-step model after every macro step; plus 700 short rounds per unit of scale of a fresh striped buffer (up to 64 stripes) under 2-12 "
                     "recorders released together, a recorder that has seen an empty stripe slot being held back at a hook point while the others may expand the table, and a concurrent drainer checked for delivered-subset-of-recorded, no duplicates, capacity, complete quiescent drain and monotone stripe table; "
                     "distinct_nontrivial = distinct (status/drain size, number of parked producers) and stripe-table outcomes",
                assumptions=["sequential consistency of sync/atomic", "in the ring engine CAS failures (status Failed) occur only in the free-running part; the stripe engine produces them deterministically", "counters do not wrap (2^64 adds)",
                             "the striped model's rings are abstract (lists of recorded elements): the ring protocol itself is the Ring.v theorem; the two are composed informally",
                             "the critical sections of the striped table (several accesses under the busy lock) are one step each in the model: their only visible write is the last one and the data they read is written only under the lock (mutual exclusion is proved)"]),
    "C04": dict(engines=[MAINT, SEQ, MID], rule=MAINT_RULE + " | " + MID_RULE, assumptions=MAINT_ASSUME),
    "C05": dict(engines=[MAINT, MID], rule=MAINT_RULE + " | " + MID_RULE, assumptions=MAINT_ASSUME + ["writes inside a maintenance run are tied to the split-maintenance theorem (C05_invariant_mid_maintenance_writes) by implementation oracles, not by model replay"]),
    "C06": dict(engines=[SEQ, MAINT, MID], rule=SEQ_RULE + "; OnDeletion vs OnAtomicDeletion multisets compared at quiescence of every case | " + MID_RULE, assumptions=SEQ_ASSUME),
    "C07": dict(engines=[MAINT, SEQ], rule=MAINT_RULE + "; in both engines every Overflow removal is checked against the model's total weight and the current maximum", assumptions=MAINT_ASSUME),
    "C13": dict(engines=[MAINT, PERIODIC], rule=MAINT_RULE + "; clock steps include sub-tick, one tick +-1, whole revolutions of every level and 2^52 ns; about 6% of Set/SetIfAbsent calls in expiring configurations are STALE writes: the clock sample is taken, then the clock advances (3 ns .. 2^42 ns) and CleanUp runs, then the write proceeds with the old sample (the two-thread interleaving of the property text, produced deterministically through the Clock interface)"
                                " | periodic engine (implementation oracle): the harness owns the Clock and fires its ticks (zero, wall-clock and clock-derived tick values); after a tick more than one timer tick past the deadlines, "
                                "with no cache call by the harness, EstimatedSize must reach 0 and every Expiration event be delivered (TTLs 1 ms .. 40 days, three phases per cache)", assumptions=MAINT_ASSUME),
    "C19": dict(engines=[SEQ], rule=SEQ_RULE + "; at the end of every case the cache is saved, the clock moved (0, 1 ns, exactly the first deadline, just before it, beyond) and loaded into a fresh cache of the same configuration with the same / a larger / a smaller maximum", assumptions=SEQ_ASSUME + ["gob is the identity on Entry"]),
    "C01": dict(engines=[SEQ], rule=SEQ_RULE, assumptions=SEQ_ASSUME),
    "C03": dict(engines=[SEQ], rule=SEQ_RULE + "; the evidence's model_replay_stats.on_expired_* count operations applied to an expired-but-unswept key",
                assumptions=SEQ_ASSUME),
    "C10": dict(engines=[SEQ], rule=SEQ_RULE, assumptions=SEQ_ASSUME),
    "C11": dict(engines=[SEQ, LOAD], rule=SEQ_RULE + " | " + LOAD_RULE, assumptions=SEQ_ASSUME + ["in-flight / dedup behaviour of refresh is covered by C08/C09, not here"]),
    "C12": dict(engines=[SEQ], rule=SEQ_RULE, assumptions=SEQ_ASSUME),
    "C20": dict(engines=[SEQ, dict(LIN, model=False), LOAD, ADDER],
                rule=SEQ_RULE + " | lin engine (implementation oracle only): after every concurrent case Stats.Evictions and EvictionWeight must equal the number of automatic removals the cache reported, "
                                "however invalidations and replacements raced with maintenance"
                                " | load engine: LoadSuccesses + LoadFailures must equal the number of loader invocations of every case, joiners (Get and single-key BulkGet callers of an in-flight load) counting nothing"
                                " | adder engine (the tie between the Coq model of the striped counter, Adder.v, and internal/xsync/adder.go): 120 macro-step schedules per unit of scale over 2-5 concurrent Add / Value calls on an adder with 1, 2, 4 or 8 stripes; "
                                "every Add parks between the load of its stripe and its CAS (hook 1, reporting the stripe), every Value before each stripe's load (hook 2); one goroutine is resumed at a time, so a second Add on the same stripe makes the parked one's CAS fail and "
                                "probe another stripe; the replayer feeds the observed probe indices to the extracted model and compares the outcome of every CAS, every stripe after every macro step and every Value result; deltas 0, 1-9, up to 2^30 and 2^62 (the total wraps); "
                                "at the end of a case Value() must equal the sum of the deltas mod 2^64; plus 40 free-running rounds per unit of scale of stats.Counter under 2-16 recorders and a snapshot reader (totals exact, successive snapshots never decrease)",
                assumptions=SEQ_ASSUME + ["hit/miss/load counters of the cache are compared sequentially only; the counter's own concurrency is the adder model's (sequential consistency of sync/atomic; the token pool and Fastrand only choose probe indices, which are inputs)"]),
    "C18": dict(
        engines=[SKETCH, MAINT],
        rule="(admission in situ: the maint engine below replays every eviction pass on the extracted Policy/Sketch model, so which of candidate and victim leaves - and which candidate is compared next - must be the model's) sketch engine: per case one capacity from a boundary list (0..2^16+1), random/skewed key streams, "
             "explicit and natural resets, ensureCapacity calls; entire table/size/sampleSize compared with the "
             "extracted model after every call; distinct_nontrivial = distinct (estimate, recorded) and "
             "(admit, candFreq, victimFreq) combinations observed with recorded > 0 | " + MAINT_RULE,
        assumptions=MAINT_ASSUME + ["the key hasher (maphash) is an arbitrary function: raw hashes are read from the implementation and fed to the model",
                     "math/rand output of policy.rand is an input (injected)"],
    ),
}
