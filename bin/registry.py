"""Which engines serve which property (see DESIGN.md section 4.2 / 5)."""

SKETCH = dict(engine="sketch", scale_quick=1, scale_thorough=12, timeout_quick=600, timeout_thorough=3000)

SEQ = dict(engine="seq", scale_quick=4, scale_thorough=20, timeout_quick=900, timeout_thorough=6000)

SEQ_RULE = ("seq engine: 96 cases per unit of scale cycling through the 12 feature combinations (unbounded/MaximumSize/"
            "MaximumWeight x expiry none|custom/creating/writing/accessing, refresh on in half of the cases) with random "
            "InitialCapacity, 150-350 operations each over 3-6 keys with unique values, clock steps from 0 ns to 2^52 ns, "
            "durations from 1 ns to MaxInt64, queued same-goroutine executor drained at random points; after every operation "
            "the per-key entries, physical size and statistics are compared with the extracted concrete model and abstract map; "
            "distinct_nontrivial = (number of operation kinds exercised) x (number of distinct distribution buckets)")
SEQ_ASSUME = ["calculators depend on (key, value, current duration) only; creation durations are positive and independent of the current duration (cfg_ok)",
              "clock values in [0, MaxInt64); the loader does not move the clock (now2 = now)",
              "same-goroutine executor that runs a submitted task after the submitting operation returned",
              "eviction choices are inputs: automatic removals are taken from the implementation's deletion events and checked for legality"]

PROPS = {
    "C01": dict(engines=[SEQ], rule=SEQ_RULE, assumptions=SEQ_ASSUME),
    "C03": dict(engines=[SEQ], rule=SEQ_RULE + "; the evidence's model_replay_stats.on_expired_* count operations applied to an expired-but-unswept key",
                assumptions=SEQ_ASSUME),
    "C10": dict(engines=[SEQ], rule=SEQ_RULE, assumptions=SEQ_ASSUME),
    "C11": dict(engines=[SEQ], rule=SEQ_RULE, assumptions=SEQ_ASSUME + ["in-flight / dedup behaviour of refresh is covered by C08/C09, not here"]),
    "C12": dict(engines=[SEQ], rule=SEQ_RULE, assumptions=SEQ_ASSUME),
    "C20": dict(engines=[SEQ], rule=SEQ_RULE, assumptions=SEQ_ASSUME + ["concurrent counting (striped adder) is not covered by this engine"]),
    "C18": dict(
        engines=[SKETCH],
        rule="sketch engine: per case one capacity from a boundary list (0..2^16+1), random/skewed key streams, "
             "explicit and natural resets, ensureCapacity calls; entire table/size/sampleSize compared with the "
             "extracted model after every call; distinct_nontrivial = distinct (estimate, recorded) and "
             "(admit, candFreq, victimFreq) combinations observed with recorded > 0",
        assumptions=["the key hasher (maphash) is an arbitrary function: raw hashes are read from the implementation and fed to the model",
                     "math/rand output of policy.rand is an input (injected)"],
    ),
}
