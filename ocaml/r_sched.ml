(* r_sched.ml — replays a "sched" engine trace on the extracted drain-status model: the same macro
   steps (DrainMacro.macro_step) in the same order; after each one the drain status, the write
   buffer size, the lock and every thread's position are compared. *)
open Util
module M = Model

let pc_name (p : M.pc) : string =
  match p with
  | M.WPush -> "WPush" | M.WLoad -> "WLoad" | M.WCasReq -> "WCasReq" | M.WCasP2R -> "WCasP2R"
  | M.SLoad -> "SLoad" | M.STry -> "STry" | M.SLoad2 -> "SLoad2" | M.SUnlockRet -> "SUnlockRet"
  | M.SStore -> "SStore" | M.SSpawn -> "SSpawn" | M.SCas -> "SCas" | M.SUnlock -> "SUnlock"
  | M.DTry -> "DTry" | M.DCas -> "DCas" | M.DLock -> "DLock" | M.CLock -> "CLock"
  | M.MStore -> "MStore" | M.MDrain -> "MDrain" | M.MLoad -> "MLoad" | M.MCas -> "MCas"
  | M.MStoreReq -> "MStoreReq" | M.MUnlock -> "MUnlock" | M.RLoad0 -> "RLoad" | M.Done -> "Done" | M.RdLoad -> "RdLoad"
  | M.GLock -> "GLock" | M.GLoad -> "GLoad" | M.ILock -> "ILock" | M.IDrain -> "IDrain" | M.FTry -> "FTry"

(* does the implementation's position agree with the model's program counter? *)
let agrees (impl : string) (p : M.pc) (lock_held : bool) : bool =
  match impl, p with
  | "P3", M.WLoad -> true
  | "P8", (M.WCasReq | M.SLoad | M.WCasP2R | M.Done) -> true
  | "P10", M.STry -> true
  | "P4", M.SLoad2 -> true
  | "P9", M.SCas -> true
  | "P5", M.DTry -> true
  | "P1", M.MStore -> true
  | "P2", M.MLoad -> true
  | "P6", M.RLoad0 -> true
  | "B", (M.DLock | M.CLock | M.GLock | M.ILock) -> lock_held
  | "D", M.Done -> true
  | _ -> false

let run (path : string) : unit =
  let s = ref M.dstate0 in
  let dead = ref false in   (* after a divergence the rest of the case is not compared *)
  let nthreads () = List.length (M.ths_of !s) in
  iter_lines path (fun ln toks ->
      match toks with
      | [ "CASE"; _ ] -> s := M.dstate0; dead := false; count "schedules"
      | _ when !dead -> ()
      | [ "N"; k ] ->
          count "threads_started";
          let p = match k with "W" -> M.WPush | "R" -> M.RdLoad | "G" -> M.GLock | "I" -> M.ILock | _ -> M.CLock (* C, X *) in
          s := M.add_thread !s p;
          s := M.macro_step !s (nat_of_int (nthreads () - 1))
      | [ "S"; i ] ->
          count "macro_steps";
          let i = int_of_string i in
          if i >= nthreads () then (mismatch "sched" ln "step of thread %d which the model does not have" i; dead := true)
          else begin
            let n = nat_of_int i in
            match M.pc_at !s n with
            | M.Done -> ()     (* parked after the status load with nothing left to do *)
            | p ->
                if not (M.enabled !s n) then begin
                  mismatch "sched" ln "the implementation resumed thread %d, which the model has blocked at %s" i (pc_name p);
                  dead := true
                end else s := M.macro_step !s n
          end
      | "O" :: ds :: wb :: free :: ths ->
          count "states_compared";
          (* a waiter that the implementation shows at the start of maintenance has been given the lock *)
          (* first the waiters that have been through their critical section and released the lock again
             (GetMaximum / InvalidateAll callers now at the start of rescheduleCleanUpIfIncomplete), then the
             one that holds it now *)
          List.iteri (fun i st ->
              if st = "P6" && i < nthreads () then
                match M.pc_at !s (nat_of_int i) with
                | (M.GLock | M.ILock) when M.enabled !s (nat_of_int i) ->
                    s := M.macro_step !s (nat_of_int i);
                    (match M.pc_at !s (nat_of_int i) with M.RLoad0 -> count "waiters_woken" | _ -> ())
                | _ -> ()) ths;
          List.iteri (fun i st ->
              if st = "P1" && i < nthreads () then
                match M.pc_at !s (nat_of_int i) with
                | (M.DLock | M.CLock) when M.enabled !s (nat_of_int i) ->
                    (match M.dstep !s (nat_of_int i) with Some s' -> s := s'; count "waiters_woken" | None -> ())
                | M.GLock when M.enabled !s (nat_of_int i) ->
                    s := M.macro_step !s (nat_of_int i); count "waiters_woken"
                | _ -> ()) ths;
          let mds = int_of_nat (M.ds_of !s) and mwb = int_of_nat (M.wb_of !s) and mlock = M.lock_of !s in
          let ok = ref true in
          if string_of_int mds <> ds then (ok := false; mismatch "sched" ln "drain status model=%d impl=%s" mds ds);
          if string_of_int mwb <> wb then (ok := false; mismatch "sched" ln "write buffer size model=%d impl=%s" mwb wb);
          if (if mlock then "0" else "1") <> free then (ok := false; mismatch "sched" ln "eviction lock held model=%b impl-free=%s" mlock free);
          if List.length ths <> nthreads () then (ok := false; mismatch "sched" ln "threads model=%d impl=%d" (nthreads ()) (List.length ths))
          else
            List.iteri (fun i st ->
                let p = M.pc_at !s (nat_of_int i) in
                if not (agrees st p mlock) then begin
                  ok := false;
                  mismatch "sched" ln "thread %d: implementation at %s, model at %s (lock held=%b)" i st (pc_name p) mlock;
                  if st = "D" && (p = M.DLock || p = M.CLock) then
                    propfail "C14" "task-gave-up" ln "thread %d ended although the model has it waiting for the eviction lock to run maintenance" i
                end) ths;
          if not !ok then dead := true
      | [ "END"; alldone ] ->
          let md = M.all_done !s in
          if (if md then "1" else "0") <> alldone then mismatch "sched" ln "all threads finished: model=%b impl=%s" md alldone
          else if md && not (M.drained !s) then
            propfail "C14" "model-stranded" ln "the model itself ends with status=%d buffer=%d" (int_of_nat (M.ds_of !s)) (int_of_nat (M.wb_of !s))
      | [ "ABORT" ] -> dead := true
      | _ -> mismatch "sched" ln "unparsed trace line")
