(* C09 — A load never overwrites a newer write or invalidation.  Model: Load.v (see C08). *)
From Otter Require Import Base Load LoadProofs.

(* a call stays registered only as long as no write / invalidation / eviction of its key happened
   since it was created: the registered calls are exactly the pending, unsuperseded ones *)
Theorem C09_registered_iff_unsuperseded : forall es k id,
  let s := fst (lrun lstate0 es) in
  alookup k (ltable s) = Some id ->
  exists c, In c (lcalls s) /\ cid c = id /\ ckey c = k /\ cdone c = None /\ csuperseded c = false.
Proof. intros es k id s L. apply (v_table_sound s (lrun_inv es lstate0 linv_init) k id L). Qed.
Print Assumptions C09_registered_iff_unsuperseded.

(* a loaded value is installed only by a call that was never superseded *)
Theorem C09_install_only_if_unsuperseded : forall es c,
  let s := fst (lrun lstate0 es) in In c (lcalls s) -> cinstalled c = true -> csuperseded c = false.
Proof. intros es c s. apply install_only_if_unsuperseded. apply lrun_inv. apply linv_init. Qed.
Print Assumptions C09_install_only_if_unsuperseded.

(* when a superseded load finishes — with any outcome — the table is left exactly as the explicit
   writes and invalidations made it (its waiters still get its result: C08_no_stuck_waiter) *)
Theorem C09_superseded_load_changes_nothing : forall es id oc c,
  let s := fst (lrun lstate0 es) in
  In c (lcalls s) -> cid c = id -> cdone c = None -> csuperseded c = true ->
  lmap (fst (lstep s (LFinish id oc))) = lmap s.
Proof. intros es id oc c s. apply superseded_finish_keeps_map. apply lrun_inv. apply linv_init. Qed.
Print Assumptions C09_superseded_load_changes_nothing.

(* an explicit write / invalidation always takes effect and unregisters the key's call *)
Theorem C09_write_wins : forall s k v,
  alookup k (lmap (fst (lstep s (LWrite k v)))) = Some v /\
  alookup k (lmap (fst (lstep s (LInvalidate k)))) = None.
Proof.
  intros s k v. cbn [lstep fst lmap]. split.
  - rewrite alookup_aput. rewrite Z.eqb_refl. reflexivity.
  - apply alookup_aremove_same.
Qed.
Print Assumptions C09_write_wins.

Example C09_nonvacuous :
  let run es := alookup 7 (lmap (fst (lrun lstate0 es))) in
  (* write while the load runs: the write stays *)
  run [LStart 1 7 false; LWrite 7 50; LFinish 0 (OValue 60)] = Some 50 /\
  (* invalidation while the load runs: nothing is resurrected *)
  run [LWrite 7 40; LStart 1 7 true; LInvalidate 7; LFinish 0 (OValue 60)] = None /\
  (* no write in between: the loaded value is installed *)
  run [LStart 1 7 false; LFinish 0 (OValue 60)] = Some 60 /\
  (* write before the load starts: the load is newer and wins *)
  run [LWrite 7 50; LStart 1 7 true; LFinish 0 (OValue 60)] = Some 60.
Proof. vm_compute. repeat split. Qed.
