(* WheelFacts.v — first facts about the timer wheel model (C13 / C07); the full placement
   invariant is in WheelInv.v when present. *)
From Otter Require Import Base Wheel.
From Coq Require Import ZifyBool.
Local Open Scope Z_scope.

Arguments wrapu : simpl never.

Lemma wheel_add_time w id e : wtime (wheel_add w id e) = wtime w.
Proof. unfold wheel_add. destruct (find_bucket w e) as [[l s] k]. reflexivity. Qed.

(* the sweep of one bucket's timers expires exactly those whose CURRENT expiration lies strictly
   before the wheel's time, and re-links all others *)
Lemma sweep_timers_spec cur ts : forall w acc,
  let '(w1, acc1) := sweep_timers cur w ts acc in
  wtime w1 = wtime w /\
  acc1 = acc ++ map tid (filter (fun t => cur (tid t) <? wtime w) ts).
Proof.
  induction ts as [|t ts IH]; intros w acc; cbn [sweep_timers].
  - cbn. rewrite app_nil_r. auto.
  - destruct (cur (tid t) <? wtime w) eqn:E.
    + specialize (IH w (acc ++ [tid t])). destruct (sweep_timers cur w ts (acc ++ [tid t])) as [w1 acc1].
      destruct IH as [T A]. split; [assumption|]. rewrite A. cbn [filter]. rewrite E. cbn [map]. rewrite <- app_assoc. reflexivity.
    + specialize (IH (wheel_add w (tid t) (cur (tid t))) acc).
      destruct (sweep_timers cur (wheel_add w (tid t) (cur (tid t))) ts acc) as [w1 acc1].
      rewrite wheel_add_time in IH. destruct IH as [T A]. split; [assumption|]. rewrite A. cbn [filter]. rewrite E. reflexivity.
Qed.

Lemma sweep_timers_expired_due cur ts w acc id :
  In id (snd (sweep_timers cur w ts acc)) -> In id acc \/ cur id < wtime w.
Proof.
  pose proof (sweep_timers_spec cur ts w acc) as H. destruct (sweep_timers cur w ts acc) as [w1 acc1].
  destruct H as [_ ->]. cbn [snd]. rewrite in_app_iff. intros [H|H]; [left; assumption|right].
  apply in_map_iff in H. destruct H as (t & <- & Ht). apply filter_In in Ht. destruct Ht as [_ Ht]. lia.
Qed.

(* an already-due expiration is placed in level 0, in the bucket of the wheel's current tick
   (the stale-clock repair): it is met by the very next sweep that crosses a tick boundary *)
Lemma find_bucket_due w e :
  0 <= wtime w < two64 -> e < wtime w ->
  find_bucket w e = (0%nat, Z.to_nat (Z.land (Z.shiftr (wtime w) 30) 63), wtime w).
Proof.
  intros Ht He. unfold find_bucket. replace (e <? wtime w) with true by lia.
  replace (wtime w - wtime w) with 0 by lia. change (wrapu 0) with 0. reflexivity.
Qed.
