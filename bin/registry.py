"""Which engines serve which property (see DESIGN.md section 4.2 / 5)."""

SKETCH = dict(engine="sketch", scale_quick=1, scale_thorough=12, timeout_quick=600, timeout_thorough=3000)

PROPS = {
    "C18": dict(
        engines=[SKETCH],
        rule="sketch engine: per case one capacity from a boundary list (0..2^16+1), random/skewed key streams, "
             "explicit and natural resets, ensureCapacity calls; entire table/size/sampleSize compared with the "
             "extracted model after every call; distinct_nontrivial = distinct (estimate, recorded) and "
             "(admit, candFreq, victimFreq) combinations observed with recorded > 0",
        assumptions=["the key hasher (maphash) is an arbitrary function: raw hashes are read from the implementation and fed to the model",
                     "math/rand output of policy.rand is an input (injected)"],
    ),
}
