(* Policy.v — executable model of policy.go (W-TinyLFU: window / probation / protected deques,
   three wrapping uint64 weight counters, admission through the frequency sketch) over the
   intrusive deque semantics of internal/deque/linked.go.

   Nodes live in an id-indexed store (id = pointer identity). A deque is the list of ids linked
   in it, head first; Contains/Delete/UpdateNode follow linked.go: Delete of an unlinked node is
   a no-op, UpdateNode(n, old) of an unlinked old links nothing.  The floating-point parts
   (window/protected maxima derived from the maximum, the hill climber's step) are inputs.
   [hashf len key] is the raw hash the sketch's hasher gives the key while the sketch table has
   length [len] (ensureCapacity re-seeds the hasher exactly when it allocates a longer table).  No proofs here. *)
From Otter Require Import Base Sketch.

(* node states and queues as in internal/generated/node *)
Definition ALIVE : Z := 0.  Definition RETIRED : Z := 1.  Definition DEAD : Z := 2.
Definition QWINDOW : Z := 0.  Definition QPROBATION : Z := 1.  Definition QPROTECTED : Z := 2.

Record pnode := mkPnode { pkey : Z; pweight : Z; pstate : Z; pqueue : Z }.

Record policy := mkPolicy {
  store : list (Z * pnode);          (* id -> node *)
  qwin : list Z; qprob : list Z; qprot : list Z;
  maxi : Z; wsize : Z;               (* p.maximum, p.weightedSize *)
  wmax : Z; wwsize : Z;              (* windowMaximum, windowWeightedSize *)
  pmax : Z; pwsize : Z;              (* mainProtectedMaximum, mainProtectedWeightedSize *)
  sk : sketch;
  pweighted : bool                   (* p.isWeighted *)
}.

Definition policy0 (weighted : bool) : policy :=
  mkPolicy [] [] [] [] 0 0 0 0 0 0 sketch0 weighted.

Fixpoint sget (st : list (Z * pnode)) (id : Z) : option pnode :=
  match st with
  | [] => None
  | (i, n) :: st' => if i =? id then Some n else sget st' id
  end.

Fixpoint sset (st : list (Z * pnode)) (id : Z) (n : pnode) : list (Z * pnode) :=
  match st with
  | [] => [(id, n)]
  | (i, m) :: st' => if i =? id then (i, n) :: st' else (i, m) :: sset st' id n
  end.

Definition node_of (p : policy) (id : Z) : pnode :=
  match sget (store p) id with Some n => n | None => mkPnode 0 0 DEAD QWINDOW end.

(* record-update helpers *)
Definition with_store (p : policy) st := mkPolicy st (qwin p) (qprob p) (qprot p) (maxi p) (wsize p) (wmax p) (wwsize p) (pmax p) (pwsize p) (sk p) (pweighted p).
Definition with_queues (p : policy) w pr pt := mkPolicy (store p) w pr pt (maxi p) (wsize p) (wmax p) (wwsize p) (pmax p) (pwsize p) (sk p) (pweighted p).
Definition with_sizes (p : policy) ws wws pws := mkPolicy (store p) (qwin p) (qprob p) (qprot p) (maxi p) ws (wmax p) wws (pmax p) pws (sk p) (pweighted p).
Definition with_maxima (p : policy) m wm pm := mkPolicy (store p) (qwin p) (qprob p) (qprot p) m (wsize p) wm (wwsize p) pm (pwsize p) (sk p) (pweighted p).
Definition with_sketch (p : policy) s := mkPolicy (store p) (qwin p) (qprob p) (qprot p) (maxi p) (wsize p) (wmax p) (wwsize p) (pmax p) (pwsize p) s (pweighted p).

Definition tlen (p : policy) : Z := Z.of_nat (length (tbl (sk p))).

Definition set_node (p : policy) (id : Z) (n : pnode) : policy := with_store p (sset (store p) id n).
Definition set_queue_of (p : policy) (id q : Z) : policy :=
  let n := node_of p id in set_node p id (mkPnode (pkey n) (pweight n) (pstate n) q).
Definition set_state_of (p : policy) (id st : Z) : policy :=
  let n := node_of p id in set_node p id (mkPnode (pkey n) (pweight n) st (pqueue n)).

(* deque primitives *)
Definition dq_contains (d : list Z) (id : Z) : bool := existsb (Z.eqb id) d.
Definition dq_delete (d : list Z) (id : Z) : list Z := filter (fun x => negb (x =? id)) d.
Definition dq_push_back (d : list Z) (id : Z) : list Z := d ++ [id].
Definition dq_push_front (d : list Z) (id : Z) : list Z := id :: d.
Definition dq_update (d : list Z) (n old : Z) : list Z := map (fun x => if x =? old then n else x) d.
Definition dq_move_to_back (d : list Z) (id : Z) : list Z := dq_push_back (dq_delete d id) id.
Definition dq_move_to_front (d : list Z) (id : Z) : list Z := dq_push_front (dq_delete d id) id.
Definition dq_head (d : list Z) : option Z := match d with [] => None | x :: _ => Some x end.
(* n.Next() of a node linked in d *)
Fixpoint dq_next (d : list Z) (id : Z) : option Z :=
  match d with
  | [] => None
  | x :: d' => if x =? id then dq_head d' else dq_next d' id
  end.

Definition queue_of (p : policy) (q : Z) : list Z :=
  if q =? QWINDOW then qwin p else if q =? QPROBATION then qprob p else qprot p.
Definition set_queue (p : policy) (q : Z) (d : list Z) : policy :=
  if q =? QWINDOW then with_queues p d (qprob p) (qprot p)
  else if q =? QPROBATION then with_queues p (qwin p) d (qprot p)
  else with_queues p (qwin p) (qprob p) d.

(* the deque a node's queueType names *)
Definition own_queue (p : policy) (id : Z) : Z :=
  let q := pqueue (node_of p id) in if q =? QWINDOW then QWINDOW else if q =? QPROBATION then QPROBATION else QPROTECTED.

(* p.makeDead *)
Definition make_dead (p : policy) (id : Z) : policy :=
  let n := node_of p id in
  if pstate n =? DEAD then p else
  let w := pweight n in
  let p1 := with_sizes p (wrapu (wsize p - w))
                       (if pqueue n =? QWINDOW then wrapu (wwsize p - w) else wwsize p)
                       (if pqueue n =? QPROTECTED then wrapu (pwsize p - w) else pwsize p) in
  set_state_of p1 id DEAD.

(* p.delete *)
Definition pol_delete (p : policy) (id : Z) : policy :=
  let q := own_queue p id in
  make_dead (set_queue p q (dq_delete (queue_of p q) id)) id.

(* reorder(d, n) *)
Definition reorder (p : policy) (q id : Z) : policy :=
  if dq_contains (queue_of p q) id then set_queue p q (dq_move_to_back (queue_of p q) id) else p.

(* p.reorderProbation *)
Definition reorder_probation (p : policy) (id : Z) : policy :=
  let w := pweight (node_of p id) in
  if negb (dq_contains (qprob p) id) then p
  else if w >? pmax p then reorder p QPROBATION id
  else
    let p1 := with_sizes p (wsize p) (wwsize p) (wrapu (pwsize p + w)) in
    let p2 := with_queues p1 (qwin p1) (dq_delete (qprob p1) id) (dq_push_back (qprot p1) id) in
    set_queue_of p2 id QPROTECTED.

(* p.access *)
Definition pol_access (hashf : Z -> Z -> Z) (p : policy) (id : Z) : policy :=
  let n := node_of p id in
  let p1 := with_sketch p (increment (sk p) (hashf (tlen p) (pkey n))) in
  let q := pqueue n in
  if q =? QWINDOW then reorder p1 QWINDOW id
  else if q =? QPROBATION then reorder_probation p1 id
  else if q =? QPROTECTED then reorder p1 QPROTECTED id
  else p1.

(* evictNode's effect on the policy: evictionPolicy.delete(n); makeDead(n).  Whether the node was
   still in the hash table (and thus reported) is the caller's business. *)
Definition pol_evict (p : policy) (id : Z) : policy := make_dead (pol_delete p id) id.

(* p.add; returns the ids handed to evictNode *)
Definition pol_add (hashf : Z -> Z -> Z) (p : policy) (id : Z) : policy * list Z :=
  let n := node_of p id in
  let w := pweight n in
  let p1 := with_sizes p (wrapu (wsize p + w)) (wrapu (wwsize p + w)) (pwsize p) in
  let p2 :=
    if wsize p1 >=? Z.shiftr (maxi p1) 1 then
      let capacity := if pweighted p1
                      then Z.of_nat (length (qwin p1)) + Z.of_nat (length (qprob p1)) + Z.of_nat (length (qprot p1))
                      else maxi p1 in
      with_sketch p1 (ensure_capacity (sk p1) capacity)
    else p1 in
  let p3 := with_sketch p2 (increment (sk p2) (hashf (tlen p2) (pkey n))) in
  if negb (pstate n =? ALIVE) then (p3, [])
  else if w >? maxi p3 then (pol_evict p3 id, [id])
  else if w >? wmax p3 then (with_queues p3 (dq_push_front (qwin p3) id) (qprob p3) (qprot p3), [])
  else (with_queues p3 (dq_push_back (qwin p3) id) (qprob p3) (qprot p3), []).

(* p.contains (repair): is old linked in the deque its queueType names? *)
Definition pol_contains (p : policy) (id : Z) : bool := dq_contains (queue_of p (own_queue p id)) id.

(* p.updateNode *)
Definition pol_update_node (p : policy) (n old : Z) : policy :=
  let p1 := set_queue_of p n (pqueue (node_of p old)) in
  let q := own_queue p1 n in
  let p2 := set_queue p1 q (dq_update (queue_of p1 q) n old) in
  make_dead p2 old.

(* p.update (with the repair: out-of-order write operations fall back to delete + add) *)
Definition pol_update (hashf : Z -> Z -> Z) (p : policy) (n old : Z) : policy * list Z :=
  if negb (pstate (node_of p n) =? ALIVE) || negb (pol_contains p old)
  then pol_add hashf (pol_delete p old) n
  else
  let w := pweight (node_of p n) in
  let p1 := pol_update_node p n old in
  let q := pqueue (node_of p1 n) in
  let '(p2, ev) :=
    if q =? QWINDOW then
      let p1 := with_sizes p1 (wsize p1) (wrapu (wwsize p1 + w)) (pwsize p1) in
      if w >? maxi p1 then (pol_evict p1 n, [n])
      else if w <=? wmax p1 then (pol_access hashf p1 n, [])
      else if dq_contains (qwin p1) n then (with_queues p1 (dq_move_to_front (qwin p1) n) (qprob p1) (qprot p1), [])
      else (p1, [])
    else if q =? QPROBATION then
      if w <=? maxi p1 then (pol_access hashf p1 n, []) else (pol_evict p1 n, [n])
    else if q =? QPROTECTED then
      let p1 := with_sizes p1 (wsize p1) (wwsize p1) (wrapu (pwsize p1 + w)) in
      if w <=? maxi p1 then (pol_access hashf p1 n, []) else (pol_evict p1 n, [n])
    else (p1, []) in
  (with_sizes p2 (wrapu (wsize p2 + w)) (wwsize p2) (pwsize p2), ev).

(* p.setMaximumSize: window / protected maxima are inputs (floating point in the code) *)
Definition pol_set_maximum (p : policy) (m wm pm : Z) : policy :=
  if m =? maxi p then p else
  let p1 := with_maxima p m wm pm in
  if negb (pweighted p1) && (wsize p1 >=? Z.shiftr m 1)
  then with_sketch p1 (ensure_capacity (sk p1) m) else p1.

(* p.evictFromWindow: returns the first node moved to probation *)
Fixpoint evict_from_window (fuel : nat) (p : policy) (cursor : option Z) (first : option Z) : policy * option Z :=
  match fuel with
  | O => (p, first)
  | S f =>
      if wwsize p >? wmax p then
        match cursor with
        | None => (p, first)
        | Some id =>
            let next := dq_next (qwin p) id in
            let w := pweight (node_of p id) in
            if negb (w =? 0) then
              let p1 := set_queue_of p id QPROBATION in
              let p2 := with_queues p1 (dq_delete (qwin p1) id) (dq_push_back (qprob p1) id) (qprot p1) in
              let p3 := with_sizes p2 (wsize p2) (wrapu (wwsize p2 - w)) (pwsize p2) in
              evict_from_window f p3 next (match first with None => Some id | _ => first end)
            else evict_from_window f p next first
        end
      else (p, first)
  end.

(* the deque a cursor walks: n.Next() is the successor in whatever deque the node is linked in *)
Definition next_in (p : policy) (id : Z) : option Z :=
  if dq_contains (qwin p) id then dq_next (qwin p) id
  else if dq_contains (qprob p) id then dq_next (qprob p) id
  else dq_next (qprot p) id.

(* p.evictFromMain, one loop iteration at a time.  [rnd] is the value the random source of the
   admission test returns (only the random path consults it).  The cursors handed back by an
   eviction step are computed before the node is evicted, as the code does (evict := victim;
   victim = victim.Next(); evictNode(evict)). *)
Record cursors := mkCur { c_victim : option Z; c_cand : option Z; c_vq : Z; c_cq : Z }.

Inductive ef_res := EfStop | EfSkip (cu : cursors) | EfEvict (id : Z) (cu : cursors).

Definition ef_step (hashf : Z -> Z -> Z) (rnd : Z) (p : policy) (cu : cursors) : ef_res :=
  if negb (wsize p >? maxi p) then EfStop else
  let victim := c_victim cu in
  let vq := c_vq cu in
  (* Search the admission window for additional candidates *)
  let '(candidate, cq) :=
    match c_cand cu with
    | None => if c_cq cu =? QPROBATION then (dq_head (qwin p), QWINDOW) else (None, c_cq cu)
    | Some c => (Some c, c_cq cu)
    end in
  match candidate, victim with
  | None, None =>
      (* Try evicting from the protected and window queues *)
      if vq =? QPROBATION then EfSkip (mkCur (dq_head (qprot p)) candidate QPROTECTED cq)
      else if vq =? QPROTECTED then EfSkip (mkCur (dq_head (qwin p)) candidate QWINDOW cq)
      else EfStop
  | _, _ =>
      let vzero := match victim with Some v => pweight (node_of p v) =? 0 | None => false end in
      let czero := match candidate with Some c => pweight (node_of p c) =? 0 | None => false end in
      (* Skip over entries with zero weight *)
      if vzero then EfSkip (mkCur (match victim with Some v => next_in p v | None => None end) candidate vq cq)
      else if czero then EfSkip (mkCur victim (match candidate with Some c => next_in p c | None => None end) vq cq)
      else
      match victim, candidate with
      | None, Some c => EfEvict c (mkCur victim (next_in p c) vq cq)
      | Some v, None => EfEvict v (mkCur (next_in p v) candidate vq cq)
      | Some v, Some c =>
          if c =? v then EfEvict c (mkCur (next_in p v) None vq cq)
          else if negb (pstate (node_of p v) =? ALIVE) then EfEvict v (mkCur (next_in p v) candidate vq cq)
          else if negb (pstate (node_of p c) =? ALIVE) then EfEvict c (mkCur victim (next_in p c) vq cq)
          else if pweight (node_of p c) >? maxi p then EfEvict c (mkCur victim (next_in p c) vq cq)
          else if accept (sk p) (hashf (tlen p) (pkey (node_of p c))) (hashf (tlen p) (pkey (node_of p v))) rnd
          then EfEvict v (mkCur (next_in p v) (next_in p c) vq cq)
          else EfEvict c (mkCur victim (next_in p c) vq cq)
      | None, None => EfStop
      end
  end.

Fixpoint evict_from_main (fuel : nat) (hashf : Z -> Z -> Z) (rnd : Z) (p : policy) (cu : cursors) (acc : list Z)
  : policy * list Z :=
  match fuel with
  | O => (p, acc)
  | S f =>
      match ef_step hashf rnd p cu with
      | EfStop => (p, acc)
      | EfSkip cu' => evict_from_main f hashf rnd p cu' acc
      | EfEvict id cu' => evict_from_main f hashf rnd (pol_evict p id) cu' (acc ++ [id])
      end
  end.

Definition store_size (p : policy) : nat := length (store p).

(* p.evictNodes *)
Definition pol_evict_nodes (hashf : Z -> Z -> Z) (rnd : Z) (p : policy) : policy * list Z :=
  let fuel := (2 * store_size p + 8)%nat in
  let '(p1, first) := evict_from_window fuel p (dq_head (qwin p)) None in
  evict_from_main (4 * store_size p + 16)%nat hashf rnd p1 (mkCur (dq_head (qprob p1)) first QPROBATION QPROBATION) [].

(* p.demoteFromMainProtected *)
Fixpoint demote_loop (fuel : nat) (p : policy) (pws : Z) : policy * Z :=
  match fuel with
  | O => (p, pws)
  | S f =>
      if pws <=? pmax p then (p, pws) else
      match qprot p with
      | [] => (p, pws)
      | id :: rest =>
          let p1 := with_queues p (qwin p) (dq_push_back (qprob p) id) rest in
          let p2 := set_queue_of p1 id QPROBATION in
          demote_loop f p2 (wrapu (pws - pweight (node_of p id)))
      end
  end.

Definition pol_demote (p : policy) : policy :=
  if pwsize p <=? pmax p then p else
  let '(p1, pws) := demote_loop 1000 p (pwsize p) in
  with_sizes p1 (wsize p1) (wwsize p1) pws.

(* p.climb with adjustment 0 (the hill climber's amount is |stepSize| < 1 for maxima below 16) *)
Definition pol_climb (p : policy) : policy := pol_demote p.

(* ---- the hill climber's transfers.  The amount (p.adjustment after determineAdjustment: floating-point
   arithmetic on the sampled hit rates) is an INPUT; what the policy does with it is modelled. *)

(* unlink a node from the deque its queueType names, retag it, push it at the back of deque q2 *)
Definition move_to (p : policy) (id q2 : Z) : policy :=
  let nd := node_of p id in
  let pm := set_queue p (pqueue nd) (dq_delete (queue_of p (pqueue nd)) id) in
  let pr := set_queue_of pm id q2 in
  set_queue pr q2 (dq_push_back (queue_of pr q2) id).

(* increaseWindow's loop: candidates from the head of probation, else (none, or heavier than the quota)
   from the head of protected; returns the quota left *)
Fixpoint increase_loop (fuel : nat) (p : policy) (quota : Z) : policy * Z :=
  match fuel with
  | O => (p, quota)
  | S f =>
      let '(cand, isprob) :=
        match dq_head (qprob p) with
        | Some c => if quota <? pweight (node_of p c) then (dq_head (qprot p), false) else (Some c, true)
        | None => (dq_head (qprot p), false)
        end in
      match cand with
      | None => (p, quota)
      | Some c =>
          let w := pweight (node_of p c) in
          if quota <? w then (p, quota) else
          let p1 := move_to p c QWINDOW in
          let p2 := with_sizes p1 (wsize p1) (wrapu (wwsize p1 + w)) (if isprob then pwsize p1 else wrapu (pwsize p1 - w)) in
          increase_loop f p2 (quota - w)
      end
  end.

Definition pol_increase_window (adj : Z) (p : policy) : policy * Z :=
  if pmax p =? 0 then (p, adj) else
  let quota0 := if pmax p <? adj then pmax p else adj in
  let p1 := with_maxima p (maxi p) (wrapu (wmax p + quota0)) (wrapu (pmax p - quota0)) in
  let p2 := pol_demote p1 in
  let '(p3, quota) := increase_loop 1000 p2 quota0 in
  (with_maxima p3 (maxi p3) (wrapu (wmax p3 - quota)) (wrapu (pmax p3 + quota)), quota).

(* decreaseWindow's loop: candidates from the head of the window go to the back of probation *)
Fixpoint decrease_loop (fuel : nat) (p : policy) (quota : Z) : policy * Z :=
  match fuel with
  | O => (p, quota)
  | S f =>
      match dq_head (qwin p) with
      | None => (p, quota)
      | Some c =>
          let w := pweight (node_of p c) in
          if quota <? w then (p, quota) else
          let p1 := move_to p c QPROBATION in
          let p2 := with_sizes p1 (wsize p1) (wrapu (wwsize p1 - w)) (pwsize p1) in
          decrease_loop f p2 (quota - w)
      end
  end.

Definition pol_decrease_window (adj : Z) (p : policy) : policy * Z :=
  if wmax p <=? 1 then (p, adj) else
  let quota0 := if wmax p - 1 <? - adj then wmax p - 1 else - adj in
  let p1 := with_maxima p (maxi p) (wrapu (wmax p - quota0)) (wrapu (pmax p + quota0)) in
  let '(p2, quota) := decrease_loop 1000 p1 quota0 in
  (with_maxima p2 (maxi p2) (wrapu (wmax p2 + quota)) (wrapu (pmax p2 - quota)), - quota).

(* p.climb once determineAdjustment has left [adj] in p.adjustment; returns what the transfer leaves there *)
Definition pol_climb_adj (adj : Z) (p : policy) : policy * Z :=
  let p0 := pol_demote p in
  if adj =? 0 then (p0, 0)
  else if adj >? 0 then pol_increase_window adj p0
  else pol_decrease_window adj p0.
