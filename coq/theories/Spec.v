(* Spec.v — the abstract map-with-deadlines.

   The abstract state is a map in which an entry whose deadline has been reached does not
   exist: every abstract step first drops such entries ([purge]) and then behaves like the
   concrete step on what is left — a map that never contains a dead entry, so none of the
   concrete model's "expired but still physically present" branches is ever taken.  What each
   operation does on such a map is characterised in plain terms by the lemmas of
   SeqRefine.v (spec_*_char).  Automatic removals of entries the abstract map no longer holds
   (sweeps of dead nodes) are invisible abstractly. *)
From Otter Require Import Base Seq.

Definition live (c : cfg) (now : Z) (p : Z * node) : bool := negb (has_expired c (snd p) now).
Definition purge (c : cfg) (now : Z) (m : kmap) : kmap := filter (live c now) m.
Definition purge_st (c : cfg) (now : Z) (s : cstate) : cstate := mkState (purge c now (cmap s)) (cst s).

Definition op_now (o : op) : Z :=
  match o with
  | OSet _ _ now | OSetIfAbsent _ _ now | OGetIfPresent _ now | OGetEntry _ now | OGetEntryQuietly _ now
  | OCompute _ _ now | OComputeIfAbsent _ _ now | OComputeIfPresent _ _ now | OInvalidate _ now
  | OInvalidateAll now | OSetExpiresAfter _ _ now | OSetRefreshableAfter _ _ now
  | OGet _ _ now _ | OBulkGet _ _ now _ | ORefresh _ now | OBulkRefresh _ now
  | ORunRefresh _ _ _ now | ORunBulkRefresh _ _ _ now | OIter now | OAuto _ _ _ now => now
  end.

Definition spec_step (c : cfg) (a : cstate) (o : op) : cstate * result :=
  let a' := purge_st c (op_now o) a in
  match o with
  | OAuto k v cs now =>
      match lookup k (cmap a') with
      | Some n => if nval n =? v then step c a' o else (a', res0 RNone)
      | None => (a', res0 RNone)
      end
  | _ => step c a' o
  end.

Fixpoint spec_run (c : cfg) (a : cstate) (ops : list op) : cstate * list result :=
  match ops with
  | [] => (a, [])
  | o :: ops' => let '(a1, r) := spec_step c a o in
                 let '(a2, rs) := spec_run c a1 ops' in (a2, r :: rs)
  end.
