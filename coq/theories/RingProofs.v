(* RingProofs.v — invariant of the lossy ring protocol for every schedule and any number of producers. *)
From Otter Require Import Base Ring.
From Coq Require Import ZifyBool.
Local Open Scope Z_scope.
Ltac Zify.zify_post_hook ::= Z.div_mod_to_equations.

Definition nthR (l : list Z) (i : Z) : Z := nth (Z.to_nat i) l 0.

Definition in_flight (r : ring) (t n : Z) : Prop := exists j, nth_error (rprods r) j = Some (PStore n t).

Record inv (r : ring) : Prop := mkInv {
  i_bounds : 0 <= rhead r <= cursor r /\ cursor r <= rtail r <= rhead r + 16;
  i_len : Z.of_nat (length (recorded r)) = rtail r;
  i_deliv : delivered r = firstn (Z.to_nat (cursor r)) (recorded r);
  i_live : forall i, cursor r <= i < rtail r ->
           rslots r (i mod 16) = Some (nthR (recorded r) i) \/
           (rslots r (i mod 16) = None /\ in_flight r i (nthR (recorded r) i));
  i_free : forall i, rtail r <= i < cursor r + 16 -> rslots r (i mod 16) = None;
  i_prods : forall j p, nth_error (rprods r) j = Some p ->
            match p with
            | PTail _ h => h <= rhead r
            | PCas _ h t => h <= rhead r /\ t <= rtail r /\ t - h < 16
            | PStore n t => cursor r <= t < rtail r /\ rslots r (t mod 16) = None /\ nthR (recorded r) t = n
            | _ => True
            end;
  i_distinct : forall j1 j2 n1 n2 t,
      nth_error (rprods r) j1 = Some (PStore n1 t) -> nth_error (rprods r) j2 = Some (PStore n2 t) -> j1 = j2;
  i_cons : match rcons r with
           | CIdle => True
           | CTail h => h = rhead r
           | CLoad h t => rhead r <= h <= t /\ t <= rtail r
           | CClear h t v => rhead r <= h < t /\ t <= rtail r /\ rslots r (h mod 16) = Some v /\ v = nthR (recorded r) h
           | CHead h => rhead r <= h <= rtail r
           end
}.

(* ---- list helpers *)
Lemma nth_error_upd_same {A} i (x : A) l : (i < length l)%nat -> nth_error (upd i x l) i = Some x.
Proof. revert i; induction l as [|h t IH]; intros [|i] H; simpl in *; try lia; auto. apply IH; lia. Qed.

Lemma nth_error_upd_other {A} i j (x : A) l : i <> j -> nth_error (upd i x l) j = nth_error l j.
Proof. revert i j; induction l as [|h t IH]; intros [|i] [|j] H; simpl; auto; try congruence. Qed.

Lemma nth_error_nth {A} (l : list A) i d : (i < length l)%nat -> nth_error l i = Some (nth i l d).
Proof. revert i; induction l as [|h t IH]; intros [|i] H; simpl in *; try lia; auto. apply IH; lia. Qed.

Lemma mod16_inj i j : 0 <= i - j < 16 -> i mod 16 = j mod 16 -> i = j.
Proof. lia. Qed.

Lemma nthR_app_l l x i : 0 <= i < Z.of_nat (length l) -> nthR (l ++ [x]) i = nthR l i.
Proof. intros H. unfold nthR. apply app_nth1. lia. Qed.

Lemma nthR_app_last l x : nthR (l ++ [x]) (Z.of_nat (length l)) = x.
Proof. unfold nthR. rewrite Nat2Z.id. rewrite app_nth2 by lia. rewrite Nat.sub_diag. reflexivity. Qed.

Lemma firstn_app_keep (l : list Z) x n : (n <= length l)%nat -> firstn n (l ++ [x]) = firstn n l.
Proof. intros H. rewrite firstn_app. replace (n - length l)%nat with 0%nat by lia. cbn. apply app_nil_r. Qed.

Lemma firstn_succ_nth (l : list Z) n : (n < length l)%nat -> firstn (S n) l = firstn n l ++ [nth n l 0].
Proof.
  revert n; induction l as [|h t IH]; intros [|n] H; simpl in *; try lia; auto.
  f_equal. apply IH. lia.
Qed.

(* ---- initial state *)
Lemma inv_init first nprod : inv (ring_init first nprod).
Proof.
  unfold ring_init. constructor; cbn [rhead rtail rslots recorded delivered rcons rprods cursor].
  - lia.
  - reflexivity.
  - reflexivity.
  - intros i Hi. assert (i = 0) by lia. subst i. left. reflexivity.
  - intros i Hi. unfold fupd. replace (i mod 16 =? 0) with false by lia. reflexivity.
  - intros j p H. apply nth_error_In in H. apply repeat_spec in H. subst p. exact I.
  - intros j1 j2 n1 n2 t H. apply nth_error_In in H. apply repeat_spec in H. discriminate.
  - exact I.
Qed.

(* in_flight is preserved when another thread's state changes between non-PStore states *)
Lemma in_flight_upd r j p t n :
  (forall n' t', nth_error (rprods r) j <> Some (PStore n' t') \/ True) ->
  (forall n' t', nth_error (rprods r) j = Some (PStore n' t') -> False) ->
  in_flight r t n -> exists j', nth_error (upd j p (rprods r)) j' = Some (PStore n t).
Proof.
  intros _ Hnot (j' & Hj'). exists j'. destruct (Nat.eq_dec j j') as [->|Hne].
  - exfalso. eapply Hnot. eassumption.
  - rewrite nth_error_upd_other by assumption. assumption.
Qed.


Definition not_store (p : pstate) : Prop := forall n t, p <> PStore n t.

Definition prod_ok (r : ring) (p : pstate) : Prop :=
  match p with
  | PTail _ h => h <= rhead r
  | PCas _ h t => h <= rhead r /\ t <= rtail r /\ t - h < 16
  | PStore n t => cursor r <= t < rtail r /\ rslots r (t mod 16) = None /\ nthR (recorded r) t = n
  | _ => True
  end.

(* a producer moves between two states that own no slot; shared state untouched *)
Lemma set_prod_inv r j p p' :
  inv r -> nth_error (rprods r) j = Some p -> not_store p -> not_store p' -> prod_ok r p' ->
  inv (set_prod r j p').
Proof.
  intros I Hj Hp Hp' Hok. destruct I as [B L D Lv F P Ds C].
  assert (Hlen : (j < length (rprods r))%nat) by (apply nth_error_Some; congruence).
  constructor; unfold set_prod; cbn [rhead rtail rslots recorded delivered rcons rprods cursor]; try assumption.
  - intros i Hi. destruct (Lv i Hi) as [H|[H (j' & Hj')]]; [left; assumption|right]. split; [assumption|].
    unfold in_flight; cbn [rprods]. exists j'. destruct (Nat.eq_dec j j') as [->|Hne].
    + exfalso. rewrite Hj in Hj'. injection Hj' as ->. eapply Hp. reflexivity.
    + rewrite nth_error_upd_other by assumption. assumption.
  - intros j' q Hq. destruct (Nat.eq_dec j j') as [->|Hne].
    + rewrite nth_error_upd_same in Hq by assumption. injection Hq as <-. exact Hok.
    + rewrite nth_error_upd_other in Hq by assumption. apply (P j' q Hq).
  - intros j1 j2 n1 n2 t H1 H2.
    destruct (Nat.eq_dec j j1) as [->|N1].
    { rewrite nth_error_upd_same in H1 by assumption. injection H1 as H1. exfalso. eapply Hp'. eassumption. }
    destruct (Nat.eq_dec j j2) as [->|N2].
    { rewrite nth_error_upd_same in H2 by assumption. injection H2 as H2. exfalso. eapply Hp'. eassumption. }
    rewrite nth_error_upd_other in H1, H2 by assumption. eapply Ds; eassumption.
Qed.

(* the consumer moves between states with the same cursor; shared state untouched *)
Lemma set_cons_inv r c' :
  inv r -> cursor (set_cons r c') = cursor r ->
  match c' with
  | CIdle => True
  | CTail h => h = rhead r
  | CLoad h t => rhead r <= h <= t /\ t <= rtail r
  | CClear h t v => rhead r <= h < t /\ t <= rtail r /\ rslots r (h mod 16) = Some v /\ v = nthR (recorded r) h
  | CHead h => rhead r <= h <= rtail r
  end ->
  inv (set_cons r c').
Proof.
  intros I Hc Hok. destruct I as [B L D Lv F P Ds C].
  constructor; try rewrite Hc; unfold set_cons in *; cbn [rhead rtail rslots recorded delivered rcons rprods] in *; try assumption.
Qed.

Lemma nth_prod r j : (j < length (rprods r))%nat -> nth_error (rprods r) j = Some (nth j (rprods r) (PDone 0)).
Proof. apply nth_error_nth. Qed.

(* ---- producer steps *)
Lemma prod_step_inv r j payload : inv r -> (j < length (rprods r))%nat -> inv (prod_step r j payload).
Proof.
  intros I Hj. pose proof (nth_prod r j Hj) as Hn. unfold prod_step.
  pose proof I as I0. destruct I as [B L D Lv F P Ds C].
  pose proof (P j _ Hn) as Pj.
  destruct (nth j (rprods r) (PDone 0)) as [|n|n h|n h t|n t|st] eqn:Ep.
  - (* PIdle -> PHead *)
    eapply set_prod_inv; eauto; try (intros ? ? H; discriminate H); try exact Logic.I.
  - (* PHead -> PTail *)
    eapply set_prod_inv; eauto; try (intros ? ? H; discriminate H); try (cbn; lia).
  - (* PTail -> Full or PCas *)
    cbn in Pj. destruct (rtail r - h >=? RSIZE) eqn:Ef.
    + eapply set_prod_inv; eauto; try (intros ? ? H; discriminate H); try exact Logic.I.
    + eapply set_prod_inv; eauto; try (intros ? ? H; discriminate H); try (cbn; unfold RSIZE in Ef; lia).
  - (* PCas *)
    cbn in Pj. destruct Pj as (Hh & Ht & Hd).
    destruct (rtail r =? t) eqn:Et.
    + (* success: index t = old tail is won *)
      apply Z.eqb_eq in Et. subst t.
      assert (Hfree : rslots r (rtail r mod 16) = None) by (apply F; lia).
      constructor; cbn [rhead rtail rslots recorded delivered rcons rprods cursor].
      * change (cursor (mkRing (rhead r) (rtail r + 1) (rslots r) (recorded r ++ [n]) (delivered r) (rcons r) (upd j (PStore n (rtail r)) (rprods r)))) with (cursor r). lia.
      * rewrite app_length. cbn [length]. lia.
      * change (cursor (mkRing _ _ _ _ _ (rcons r) _)) with (cursor r). rewrite firstn_app_keep by lia. assumption.
      * change (cursor (mkRing _ _ _ _ _ (rcons r) _)) with (cursor r). intros i Hi.
        destruct (Z.eq_dec i (rtail r)) as [->|Hne].
        -- right. split; [assumption|]. unfold in_flight; cbn [rprods]. exists j. rewrite nth_error_upd_same by assumption.
           rewrite <- L. rewrite nthR_app_last. reflexivity.
        -- rewrite nthR_app_l by lia.
           destruct (Lv i ltac:(lia)) as [H|[H (j' & Hj')]]; [left; assumption|right]. split; [assumption|].
           unfold in_flight; cbn [rprods]. exists j'. destruct (Nat.eq_dec j j') as [->|Hnj].
           ++ rewrite Hn in Hj'. discriminate.
           ++ rewrite nth_error_upd_other by assumption. assumption.
      * change (cursor (mkRing _ _ _ _ _ (rcons r) _)) with (cursor r). intros i Hi. apply F. lia.
      * change (cursor (mkRing _ _ _ _ _ (rcons r) _)) with (cursor r). intros j' q Hq.
        destruct (Nat.eq_dec j j') as [->|Hnj].
        -- rewrite nth_error_upd_same in Hq by assumption. injection Hq as <-.
           split; [lia|]. split; [assumption|]. rewrite <- L. apply nthR_app_last.
        -- rewrite nth_error_upd_other in Hq by assumption. specialize (P j' q Hq).
           destruct q as [|?|? ?|? ? ?|n' t'|?]; try assumption; try lia.
           destruct P as (P1 & P2 & P3). split; [lia|]. split; [assumption|]. rewrite nthR_app_l by lia. assumption.
      * intros j1 j2 n1 n2 t H1 H2.
        destruct (Nat.eq_dec j j1) as [<-|N1]; destruct (Nat.eq_dec j j2) as [<-|N2]; try reflexivity.
        -- rewrite nth_error_upd_same in H1 by assumption. injection H1 as _ E1.
           rewrite nth_error_upd_other in H2 by assumption. specialize (P j2 _ H2). cbn in P. lia.
        -- rewrite nth_error_upd_same in H2 by assumption. injection H2 as _ E2.
           rewrite nth_error_upd_other in H1 by assumption. specialize (P j1 _ H1). cbn in P. lia.
        -- rewrite nth_error_upd_other in H1, H2 by assumption. eapply Ds; eassumption.
      * destruct (rcons r) as [|h0|h0 t0|h0 t0 v0|h0]; try assumption; try lia.
        destruct C as (C1 & C2 & C3 & C4). split; [lia|]. split; [lia|]. split; [assumption|].
        rewrite nthR_app_l by (cbn [cursor] in B; lia). assumption.
    + eapply set_prod_inv; eauto; try (intros ? ? H; discriminate H); try exact Logic.I.
  - (* PStore: publish *)
    cbn in Pj. destruct Pj as (Hr & Hs & Hv).
    constructor; cbn [rhead rtail rslots recorded delivered rcons rprods cursor].
    * assumption.
    * assumption.
    * assumption.
    * change (cursor (mkRing _ _ _ _ _ (rcons r) _)) with (cursor r). intros i Hi. unfold fupd.
      destruct (Z.eq_dec i t) as [->|Hne].
      -- left. rewrite Z.eqb_refl. rewrite Hv. reflexivity.
      -- assert (i mod 16 <> t mod 16) by (intros E; apply Hne; destruct (Z_le_gt_dec t i); [apply mod16_inj; lia|symmetry; apply mod16_inj; lia]).
         replace (i mod 16 =? t mod RSIZE) with false by (unfold RSIZE; lia).
         destruct (Lv i Hi) as [H0|[H0 (j' & Hj')]]; [left; assumption|right]. split; [assumption|].
         unfold in_flight; cbn [rprods]. exists j'. destruct (Nat.eq_dec j j') as [->|Hnj].
         ++ rewrite Hn in Hj'. injection Hj' as _ E. congruence.
         ++ rewrite nth_error_upd_other by assumption. assumption.
    * change (cursor (mkRing _ _ _ _ _ (rcons r) _)) with (cursor r). intros i Hi. unfold fupd.
      assert (i mod 16 <> t mod 16) by (intros E; assert (i = t) by (apply mod16_inj; lia); lia).
      replace (i mod 16 =? t mod RSIZE) with false by (unfold RSIZE; lia). apply F. assumption.
    * change (cursor (mkRing _ _ _ _ _ (rcons r) _)) with (cursor r). intros j' q Hq.
      destruct (Nat.eq_dec j j') as [->|Hnj].
      -- rewrite nth_error_upd_same in Hq by assumption. injection Hq as <-. exact Logic.I.
      -- rewrite nth_error_upd_other in Hq by assumption. pose proof (P j' q Hq) as Pq.
         destruct q as [|?|? ?|? ? ?|n' t'|?]; try assumption.
         destruct Pq as (P1 & P2 & P3). split; [assumption|]. split; [|assumption].
         unfold fupd. assert (t' <> t) by (intros ->; apply Hnj; eapply Ds; eassumption).
         assert (t' mod 16 <> t mod 16) by (intros E; apply H; destruct (Z_le_gt_dec t t'); [apply mod16_inj; lia|symmetry; apply mod16_inj; lia]).
         replace (t' mod 16 =? t mod RSIZE) with false by (unfold RSIZE; lia). assumption.
    * intros j1 j2 n1 n2 t0 H1 H2.
      destruct (Nat.eq_dec j j1) as [->|N1]; [rewrite nth_error_upd_same in H1 by assumption; discriminate|].
      destruct (Nat.eq_dec j j2) as [->|N2]; [rewrite nth_error_upd_same in H2 by assumption; discriminate|].
      rewrite nth_error_upd_other in H1, H2 by assumption. eapply Ds; eassumption.
    * destruct (rcons r) as [|h0|h0 t0|h0 t0 v0|h0]; try assumption.
      destruct C as (C1 & C2 & C3 & C4). split; [assumption|]. split; [assumption|]. split; [|assumption].
      unfold fupd. assert (h0 <> t) by (intros ->; congruence).
      cbn [cursor] in Hr, B.
      assert (h0 mod 16 <> t mod 16) by (intros E; apply H; destruct (Z_le_gt_dec t h0); [apply mod16_inj; lia|symmetry; apply mod16_inj; lia]).
      replace (h0 mod 16 =? t mod RSIZE) with false by (unfold RSIZE; lia). assumption.
  - (* PDone -> PHead *)
    eapply set_prod_inv; eauto; try (intros ? ? H; discriminate H); try exact Logic.I.
Qed.

(* ---- consumer steps *)
Lemma cons_step_inv r : inv r -> inv (cons_step r).
Proof.
  intros I. unfold cons_step. pose proof I as I0. destruct I as [B L D Lv F P Ds C].
  destruct (rcons r) as [|h|h t|h t v|h] eqn:Ec; cbn [cursor] in *.
  - (* CIdle -> CTail *)
    apply set_cons_inv; [assumption|unfold cursor, set_cons; cbn; rewrite Ec; reflexivity|reflexivity].
  - (* CTail *)
    assert (Hcur : cursor r = h) by (unfold cursor; rewrite Ec; reflexivity). rewrite Hcur in *.
    subst h. destruct (rtail r - rhead r =? 0) eqn:E0.
    + apply set_cons_inv; [assumption|unfold cursor, set_cons; cbn; rewrite Ec; reflexivity|exact Logic.I].
    + apply set_cons_inv; [assumption|unfold cursor, set_cons; cbn; rewrite Ec; reflexivity|lia].
  - (* CLoad *)
    assert (Hcur : cursor r = h) by (unfold cursor; rewrite Ec; reflexivity). rewrite Hcur in *.
    destruct (h =? t) eqn:Eht.
    + apply set_cons_inv; [assumption|unfold cursor, set_cons; cbn; rewrite Ec; reflexivity|lia].
    + destruct (rslots r (h mod RSIZE)) as [v|] eqn:Es.
      * apply set_cons_inv; [assumption|unfold cursor, set_cons; cbn; rewrite Ec; reflexivity|].
        split; [lia|]. split; [lia|]. split; [exact Es|].
        destruct (Lv h ltac:(lia)) as [H|[H _]]; unfold RSIZE in Es; congruence.
      * apply set_cons_inv; [assumption|unfold cursor, set_cons; cbn; rewrite Ec; reflexivity|lia].
  - (* CClear: clear the slot, deliver, advance the cursor *)
    assert (Hcur : cursor r = h) by (unfold cursor; rewrite Ec; reflexivity). rewrite Hcur in *.
    destruct C as (C1 & C2 & C3 & C4).
    constructor; cbn [rhead rtail rslots recorded delivered rcons rprods cursor].
    + lia.
    + assumption.
    + rewrite D. replace (Z.to_nat (h + 1)) with (S (Z.to_nat h)) by lia.
      rewrite firstn_succ_nth by lia. rewrite C4. reflexivity.
    + intros i Hi. unfold fupd.
      assert (i mod 16 <> h mod 16) by (intros E; assert (i = h) by (apply mod16_inj; lia); lia).
      replace (i mod 16 =? h mod RSIZE) with false by (unfold RSIZE; lia).
      destruct (Lv i ltac:(lia)) as [H0|[H0 H1]]; [left; assumption|right; split; assumption].
    + intros i Hi. unfold fupd.
      destruct (Z.eq_dec i (h + 16)) as [->|Hne].
      * replace ((h + 16) mod 16 =? h mod RSIZE) with true by (unfold RSIZE; lia). reflexivity.
      * assert (i mod 16 <> h mod 16) by (intros E; assert (i = h) by (apply mod16_inj; lia); lia).
        replace (i mod 16 =? h mod RSIZE) with false by (unfold RSIZE; lia). apply F. lia.
    + intros j p Hp. pose proof (P j p Hp) as Pp. destruct p as [|?|? ?|? ? ?|n' t'|?]; try assumption.
      destruct Pp as (P1 & P2 & P3).
      assert (t' <> h) by (intros ->; congruence).
      split; [lia|]. split; [|assumption]. unfold fupd.
      assert (t' mod 16 <> h mod 16) by (intros E; apply H; apply mod16_inj; lia).
      replace (t' mod 16 =? h mod RSIZE) with false by (unfold RSIZE; lia). assumption.
    + assumption.
    + lia.
  - (* CHead: publish the new head *)
    assert (Hcur : cursor r = h) by (unfold cursor; rewrite Ec; reflexivity). rewrite Hcur in *.
    constructor; cbn [rhead rtail rslots recorded delivered rcons rprods cursor].
    + lia.
    + assumption.
    + assumption.
    + assumption.
    + assumption.
    + intros j p Hp. pose proof (P j p Hp) as Pp. destruct p as [|?|? ?|? ? ?|n' t'|?]; try assumption; lia.
    + assumption.
    + exact Logic.I.
Qed.

Lemma ring_step_inv r ev : inv r -> inv (ring_step r ev).
Proof.
  intros I. unfold ring_step. destruct (fst ev) as [|i].
  - apply cons_step_inv. assumption.
  - destruct (Nat.ltb i (length (rprods r))) eqn:E; [|assumption].
    apply prod_step_inv; [assumption|]. apply Nat.ltb_lt. assumption.
Qed.

Theorem ring_exec_inv sched : forall r, inv r -> inv (ring_exec r sched).
Proof.
  induction sched as [|ev sched IH]; intros r I; cbn [ring_exec fold_left]; [assumption|].
  apply IH. apply ring_step_inv. assumption.
Qed.

(* ---- consequences *)

(* delivered is a prefix of recorded: nothing unrecorded, nothing twice, ring order *)
Lemma inv_delivered_prefix r : inv r -> exists rest, recorded r = delivered r ++ rest.
Proof.
  intros I. exists (skipn (Z.to_nat (cursor r)) (recorded r)). rewrite (i_deliv r I). symmetry. apply firstn_skipn.
Qed.

Lemma inv_capacity r : inv r -> 0 <= rtail r - rhead r <= 16.
Proof. intros I. pose proof (i_bounds r I). lia. Qed.

(* quiescence: no producer is between its CAS and its store *)
Definition quiescent (r : ring) : Prop := forall j p, nth_error (rprods r) j = Some p -> not_store p.

Fixpoint iter_cons (n : nat) (r : ring) : ring :=
  match n with O => r | S n' => iter_cons n' (cons_step r) end.

Lemma cons_step_prods r : rprods (cons_step r) = rprods r.
Proof. unfold cons_step. destruct (rcons r) as [|h|h t|h t v|h]; cbn; try reflexivity.
  - destruct (_ =? 0); reflexivity.
  - destruct (h =? t); [reflexivity|]. destruct (rslots r (h mod RSIZE)); reflexivity.
Qed.

Lemma cons_step_recorded r : recorded (cons_step r) = recorded r /\ rtail (cons_step r) = rtail r.
Proof. unfold cons_step. destruct (rcons r) as [|h|h t|h t v|h]; cbn; auto.
  - destruct (_ =? 0); auto.
  - destruct (h =? t); [auto|]. destruct (rslots r (h mod RSIZE)); auto.
Qed.

(* from the loading state, with every slot up to the tail published, the consumer delivers all *)
Lemma drain_from_load n : forall r h,
  inv r -> quiescent r -> rcons r = CLoad h (rtail r) -> Z.to_nat (rtail r - h) = n ->
  let r' := iter_cons (2 * n + 2) r in
  rcons r' = CIdle /\ delivered r' = recorded r /\ rhead r' = rtail r /\ rtail r' = rtail r.
Proof.
  induction n as [|n IH]; intros r h I Q Ec En.
  - pose proof (i_cons r I) as C. rewrite Ec in C.
    assert (h = rtail r) by lia. subst h.
    assert (E1 : cons_step r = set_cons r (CHead (rtail r))).
    { unfold cons_step. rewrite Ec. rewrite Z.eqb_refl. reflexivity. }
    change (iter_cons (2 * 0 + 2) r) with (cons_step (cons_step r)). rewrite E1.
    unfold cons_step, set_cons. cbn [rcons rhead rtail delivered recorded].
    split; [reflexivity|]. split; [|split; reflexivity].
    rewrite (i_deliv r I). unfold cursor. rewrite Ec. rewrite <- (i_len r I). rewrite Nat2Z.id. apply firstn_all.
  - pose proof (i_cons r I) as C. rewrite Ec in C.
    assert (Hlt : h < rtail r) by lia.
    replace (2 * S n + 2)%nat with (S (S (2 * n + 2))) by lia. cbn [iter_cons].
    (* step 1: load a published slot *)
    assert (Hs : exists v, rslots r (h mod 16) = Some v).
    { destruct (i_live r I h) as [H|[_ (j & Hj)]].
      - unfold cursor. rewrite Ec. lia.
      - eauto.
      - exfalso. eapply (Q j _ Hj). reflexivity. }
    destruct Hs as (v & Hs).
    assert (E1 : cons_step r = set_cons r (CClear h (rtail r) v)).
    { unfold cons_step. rewrite Ec. replace (h =? rtail r) with false by lia. unfold RSIZE. rewrite Hs. reflexivity. }
    pose proof (cons_step_inv r I) as I1. rewrite E1 in I1.
    set (r1 := set_cons r (CClear h (rtail r) v)) in *.
    pose proof (cons_step_inv r1 I1) as I2.
    assert (E2 : rcons (cons_step r1) = CLoad (h + 1) (rtail r1) /\ rtail (cons_step r1) = rtail r /\
                 recorded (cons_step r1) = recorded r /\ rprods (cons_step r1) = rprods r).
    { unfold cons_step, r1. cbn. auto. }
    destruct E2 as (E2a & E2b & E2c & E2d).
    rewrite E1. fold r1.
    assert (Q2 : quiescent (cons_step r1)) by (unfold quiescent; rewrite E2d; exact Q).
    assert (T1 : rtail r1 = rtail r) by reflexivity.
    specialize (IH (cons_step r1) (h + 1) I2 Q2).
    rewrite E2b in IH. rewrite T1 in E2a. specialize (IH E2a ltac:(lia)).
    cbv zeta in IH. rewrite E2c in IH. exact IH.
Qed.

(* with no producer in flight, one drainTo (started from idle) delivers everything recorded *)
Theorem quiescent_drain r :
  inv r -> quiescent r -> rcons r = CIdle ->
  exists n, let r' := iter_cons n r in
            rcons r' = CIdle /\ delivered r' = recorded r /\ rhead r' = rtail r.
Proof.
  intros I Q Ec.
  assert (E1 : cons_step r = set_cons r (CTail (rhead r))) by (unfold cons_step; rewrite Ec; reflexivity).
  pose proof (cons_step_inv r I) as I1. rewrite E1 in I1.
  set (r1 := set_cons r (CTail (rhead r))) in *.
  destruct (rtail r - rhead r =? 0) eqn:E0.
  - exists 2%nat. change (iter_cons 2 r) with (cons_step (cons_step r)). rewrite E1. fold r1.
    unfold cons_step, r1, set_cons. cbn [rcons rhead rtail delivered recorded]. rewrite E0.
    cbn [rcons rhead rtail delivered recorded]. split; [reflexivity|]. split; [|lia].
    rewrite (i_deliv r I). unfold cursor. rewrite Ec.
    assert (rhead r = rtail r) by lia. rewrite H. rewrite <- (i_len r I). rewrite Nat2Z.id. apply firstn_all.
  - assert (E2 : cons_step r1 = set_cons r1 (CLoad (rhead r) (rtail r))).
    { unfold cons_step, r1, set_cons. cbn [rcons rhead rtail]. rewrite E0. reflexivity. }
    pose proof (cons_step_inv r1 I1) as I2. rewrite E2 in I2.
    set (r2 := set_cons r1 (CLoad (rhead r) (rtail r))) in *.
    assert (Q2 : quiescent r2) by exact Q.
    pose proof (drain_from_load (Z.to_nat (rtail r - rhead r)) r2 (rhead r) I2 Q2 eq_refl eq_refl) as H.
    cbv zeta in H. destruct H as (H1 & H2 & H3 & H4).
    exists (S (S (2 * Z.to_nat (rtail r - rhead r) + 2))). cbn [iter_cons]. rewrite E1. fold r1. rewrite E2. fold r2.
    split; [exact H1|]. split; [exact H2|exact H3].
Qed.
