(* Maint.v — executable model of the maintenance side of cache_impl.go: write tasks
   (add / update / delete), the read buffer (one lossy ring of 16 in single-goroutine use),
   runTask, onAccess, expireNodes, evictNodes, climb, evictNode — over Policy.v and Wheel.v.

   Events are what the cache's index actions hand to maintenance; the ORDER in which tasks reach the
   write buffer is part of the input (any order is a legal event list), which is how the
   "all orders in which write events reach the maintenance thread" quantifier is covered.
   [cur id] is the node's current ExpiresAt (mutable, read at link/sweep time). No proofs here. *)
From Otter Require Import Base Sketch Policy Wheel.

Inductive task := TAdd (n : Z) | TUpd (n old : Z) | TDel (n : Z).

Record mstate := mkM {
  pol : policy;
  whl : wheel;
  m_evict : bool;          (* c.withEviction *)
  m_expire : bool;         (* c.withExpiration *)
  rbuf : list Z;           (* read buffer, FIFO, capacity 16 *)
  wbuf : list task         (* write buffer, FIFO *)
}.

Definition mstate0 (evict expire weighted : bool) : mstate :=
  mkM (policy0 weighted) wheel0 evict expire [] [].

Definition with_pol (m : mstate) p := mkM p (whl m) (m_evict m) (m_expire m) (rbuf m) (wbuf m).
Definition with_whl (m : mstate) w := mkM (pol m) w (m_evict m) (m_expire m) (rbuf m) (wbuf m).
Definition with_rbuf (m : mstate) r := mkM (pol m) (whl m) (m_evict m) (m_expire m) r (wbuf m).
Definition with_wbuf (m : mstate) w := mkM (pol m) (whl m) (m_evict m) (m_expire m) (rbuf m) w.

(* a node object comes into existence (newNode): alive, queueType window, not linked anywhere *)
Definition m_new (m : mstate) (id key w : Z) : mstate :=
  with_pol m (set_node (pol m) id (mkPnode key w ALIVE QWINDOW)).

(* makeRetired *)
Definition m_retire (m : mstate) (id : Z) : mstate :=
  if pstate (node_of (pol m) id) =? ALIVE then with_pol m (set_state_of (pol m) id RETIRED) else m.

Definition is_alive (m : mstate) (id : Z) : bool := pstate (node_of (pol m) id) =? ALIVE.

(* skipReadBuffer *)
Definition skip_read_buffer (m : mstate) : bool :=
  negb (m_evict m || m_expire m) || (negb (m_expire m) && m_evict m && negb (inited (sk (pol m)))).

(* afterRead's buffer part: returns whether the add was refused (Full) *)
Definition m_read (m : mstate) (id : Z) : mstate * bool :=
  if skip_read_buffer m then (m, false)
  else if Nat.ltb (length (rbuf m)) 16 then (with_rbuf m (rbuf m ++ [id]), false)
  else (m, true).

Definition m_push (m : mstate) (t : task) : mstate := with_wbuf m (wbuf m ++ [t]).

(* c.evictNode's policy side; the id is reported to the caller, who knows whether it is current *)
Definition m_evict_node (m : mstate) (id : Z) : mstate :=
  let m1 := if m_evict m then with_pol m (pol_delete (pol m) id) else m in
  let m2 := if m_expire m1 then with_whl m1 (wheel_delete (whl m1) id) else m1 in
  (* makeDead *)
  if m_evict m2 then with_pol m2 (make_dead (pol m2) id)
  else with_pol m2 (set_state_of (pol m2) id DEAD).

Definition m_evict_all (m : mstate) (ids : list Z) : mstate := fold_left m_evict_node ids m.

(* the wheel links a node under its current expiration *)
Definition m_wheel_add (cur : Z -> Z) (m : mstate) (id : Z) : mstate :=
  with_whl m (wheel_add (whl m) id (cur id)).

(* c.runTask; returns the ids handed to evictNode *)
Definition m_run_task (hashf : Z -> Z -> Z) (cur : Z -> Z) (m : mstate) (t : task) : mstate * list Z :=
  match t with
  | TAdd n =>
      let m1 := if m_expire m && is_alive m n then m_wheel_add cur m n else m in
      if m_evict m1 then
        let '(p, ev) := pol_add hashf (pol m1) n in
        (* pol_add already applied the policy side of evictNode; finish with wheel + state *)
        (fold_left (fun mm id => if m_expire mm then with_whl mm (wheel_delete (whl mm) id) else mm) ev (with_pol m1 p), ev)
      else (m1, [])
  | TUpd n old =>
      let m1 := if m_expire m
                then let m' := with_whl m (wheel_delete (whl m) old) in
                     if is_alive m' n then m_wheel_add cur m' n else m'
                else m in
      if m_evict m1 then
        let '(p, ev) := pol_update hashf (pol m1) n old in
        (fold_left (fun mm id => if m_expire mm then with_whl mm (wheel_delete (whl mm) id) else mm) ev (with_pol m1 p), ev)
      else (m1, [])
  | TDel n =>
      let m1 := if m_expire m then with_whl m (wheel_delete (whl m) n) else m in
      let m2 := if m_evict m1 then with_pol m1 (pol_delete (pol m1) n) else m1 in
      (m2, [])
  end.

Fixpoint m_run_tasks (hashf : Z -> Z -> Z) (cur : Z -> Z) (m : mstate) (ts : list task) (acc : list Z) : mstate * list Z :=
  match ts with
  | [] => (m, acc)
  | t :: ts' => let '(m1, ev) := m_run_task hashf cur m t in m_run_tasks hashf cur m1 ts' (acc ++ ev)
  end.

(* c.onAccess *)
Definition m_on_access (hashf : Z -> Z -> Z) (cur : Z -> Z) (m : mstate) (id : Z) : mstate :=
  let m1 := if m_evict m then with_pol m (pol_access hashf (pol m) id) else m in
  if m_expire m1 && wheel_mem (whl m1) id then
    let m2 := with_whl m1 (wheel_delete (whl m1) id) in
    if is_alive m2 id then m_wheel_add cur m2 id else m2
  else m1.

(* c.maintenance(nil) at clock [now], with [rnd] the random source of the admission test and [adj] the
   hill climber's amount (p.adjustment once determineAdjustment has run: an input).
   Returns (expired ids, size-evicted ids during task replay, size-evicted ids by evictNodes). *)
Definition m_maintenance (hashf : Z -> Z -> Z) (cur : Z -> Z) (rnd now adj : Z) (m : mstate) : mstate * list Z * list Z * list Z :=
  (* drainReadBuffer *)
  let m1 := if skip_read_buffer m then m
            else with_rbuf (fold_left (m_on_access hashf cur) (rbuf m) m) [] in
  (* drainWriteBuffer *)
  let '(m2, ev_tasks) := m_run_tasks hashf cur (with_wbuf m1 []) (wbuf m1) [] in
  (* expireNodes *)
  let '(m3, expired) :=
    if m_expire m2 then
      let '(w, ids) := wheel_delete_expired cur (whl m2) now in
      (m_evict_all (with_whl m2 w) ids, ids)
    else (m2, []) in
  (* evictNodes *)
  let '(m4, evicted) :=
    if m_evict m3 then
      let '(p, ids) := pol_evict_nodes hashf rnd (pol m3) in
      (fold_left (fun mm id => if m_expire mm then with_whl mm (wheel_delete (whl mm) id) else mm) ids (with_pol m3 p), ids)
    else (m3, []) in
  (* climb *)
  let m5 := if m_evict m4 then with_pol m4 (fst (pol_climb_adj adj (pol m4))) else m4 in
  (m5, expired, ev_tasks, evicted).

(* SetMaximum's policy part *)
Definition m_set_maximum (m : mstate) (mx wm pm : Z) : mstate := with_pol m (pol_set_maximum (pol m) mx wm pm).

(* newCache: sketch.ensureCapacity(min(maximum, InitialCapacity)) when an initial capacity was given *)
Definition m_init_sketch (m : mstate) (cap : Z) : mstate :=
  with_pol m (with_sketch (pol m) (ensure_capacity (sk (pol m)) cap)).

(* ---- the audit view compared with the implementation *)
Definition sum_weights (p : policy) (ids : list Z) : Z := sumZ (map (fun id => pweight (node_of p id)) ids).

(* ---- a maintenance run in two parts, for index actions that land inside it: the drain of the two
   buffers, then expiration / eviction / climb.  [m_maintenance] is the second applied to the first
   (PolicyInv.m_maintenance_split). *)
Definition m_maint_pre (hashf : Z -> Z -> Z) (cur : Z -> Z) (m : mstate) : mstate * list Z :=
  let m1 := if skip_read_buffer m then m
            else with_rbuf (fold_left (m_on_access hashf cur) (rbuf m) m) [] in
  m_run_tasks hashf cur (with_wbuf m1 []) (wbuf m1) [].

Definition m_maint_post (hashf : Z -> Z -> Z) (cur : Z -> Z) (rnd now adj : Z) (m2 : mstate) : mstate * list Z * list Z :=
  let '(m3, expired) :=
    if m_expire m2 then
      let '(w, ids) := wheel_delete_expired cur (whl m2) now in
      (m_evict_all (with_whl m2 w) ids, ids)
    else (m2, []) in
  let '(m4, evicted) :=
    if m_evict m3 then
      let '(p, ids) := pol_evict_nodes hashf rnd (pol m3) in
      (fold_left (fun mm id => if m_expire mm then with_whl mm (wheel_delete (whl mm) id) else mm) ids (with_pol m3 p), ids)
    else (m3, []) in
  let m5 := if m_evict m4 then with_pol m4 (fst (pol_climb_adj adj (pol m4))) else m4 in
  (m5, expired, evicted).
