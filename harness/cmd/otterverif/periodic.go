package main

import (
	"fmt"
	"sync/atomic"
	"time"

	otter "github.com/maypok86/otter/v2"
)

// Engine "periodic" (C13, implementation oracle only): the cache's own periodic clean-up.  The
// harness owns the Clock: it sets the time and fires the ticks itself (with zero, wall-clock and
// clock-derived tick values — the value of a tick is not part of the Clock contract).  After a tick
// delivered more than one timer tick past the deadlines, with no cache call by the harness, every
// expired entry must be gone from EstimatedSize and its Expiration event delivered.
func init() { engines["periodic"] = runPeriodic }

type tickClock struct {
	now atomic.Int64
	ch  chan time.Time
}

func (t *tickClock) NowNano() int64                          { return t.now.Load() }
func (t *tickClock) Tick(d time.Duration) <-chan time.Time { return t.ch }

func runPeriodic(seed uint64, scale int, out string, _ string) *summary {
	r := &rng{s: seed}
	sum := newSummary("periodic", seed)
	t := newTrace(out)
	defer t.close()
	seen := map[string]bool{}
	rounds := 40 * scale
	failures := 0
	for rd := 0; rd < rounds && failures < 4; rd++ { // every failing round costs its whole time limit
		clk := &tickClock{ch: make(chan time.Time)}
		clk.now.Store([]int64{1000, 1 << 40, 1_700_000_000_000_000_000}[r.intn(3)])
		ttl := []time.Duration{time.Millisecond, time.Second, time.Minute, 3 * time.Hour, 40 * 24 * time.Hour}[r.intn(5)]
		var expired atomic.Int64
		opts := &otter.Options[int, int]{
			ExpiryCalculator: otter.ExpiryWriting[int, int](ttl),
			Clock:            clk,
			Logger:           &otter.NoopLogger{},
			OnAtomicDeletion: func(e otter.DeletionEvent[int, int]) {
				if e.Cause == otter.CauseExpiration {
					expired.Add(1)
				}
			},
		}
		if r.chance(50) {
			opts.MaximumSize = 100
		}
		c := otter.Must(opts)
		desc := fmt.Sprintf("periodic round %d ttl=%s bounded=%v", rd, ttl, opts.MaximumSize != 0)
		total := 0
		bad := false
		for phase := 0; phase < 3 && !bad; phase++ {
			n := 1 + r.intn(20)
			for i := 0; i < n; i++ {
				c.Set(phase*1000+i, i)
			}
			total += n
			// more than one timer tick (2^30 ns) past every deadline
			clk.now.Add(int64(ttl) + (1 << 31) + int64(r.intn(1000)))
			var tv time.Time
			kind := (rd + phase) % 3
			switch kind {
			case 1:
				tv = time.Now()
			case 2:
				tv = time.Unix(0, clk.now.Load())
			}
			select {
			case clk.ch <- tv:
			case <-time.After(5 * time.Second):
				sum.fail("C13", "periodic-no-listener", "the periodic clean-up does not listen to the clock's ticks", desc)
				bad = true
				continue
			}
			deadline := time.Now().Add(5 * time.Second)
			for time.Now().Before(deadline) && (c.EstimatedSize() != 0 || int(expired.Load()) != total) {
				time.Sleep(200 * time.Microsecond)
			}
			if c.EstimatedSize() != 0 || int(expired.Load()) != total {
				sum.fail("C13", "periodic-unswept", "entries expired for more than a tick survived a periodic clean-up",
					fmt.Sprintf("%s phase=%d tickValue=%d size=%d expirationEvents=%d/%d", desc, phase, kind, c.EstimatedSize(), expired.Load(), total))
				bad = true
			}
			sum.Ops += n
			seen[fmt.Sprintf("%s/%d", ttl, kind)] = true
		}
		if bad {
			failures++
		}
		c.StopAllGoroutines()
		sum.Cases++
		t.line("P %d %s %v", rd, ttl, !bad)
		if len(sum.Samples) < 3 {
			sum.Samples = append(sum.Samples, desc)
		}
	}
	sum.Distinct = len(seen)
	return sum
}
