(* Drain.v — small-step model of the drain-status protocol of cache_impl.go
   (scheduleAfterWrite / scheduleDrainBuffers / drainBuffers / maintenance /
   rescheduleCleanUpIfIncomplete / performCleanUp) with the DEFAULT executor: every executor
   submission spawns a task thread.  One step = one atomic access (load, store, CAS, TryLock, Lock,
   Unlock, one buffer pop) of one thread; a schedule is any sequence of enabled threads.

   State (nested tuples, so that std++ gives decidable equality and countability for free):
     ds     drain status: 0 idle, 1 required, 2 processingToIdle, 3 processingToRequired
     lock   evictionMutex held?
     wb     number of events in the write buffer
     ths    threads: (kind-independent program counter, argument)
            the argument is: for a spawner at SCas the index of the task it spawned;
            for a task its token (0/1).  A thread's argument is 0 only while it is a writer or CleanUp
            caller that has not spawned yet, or a task whose token is still free: a spawner leaves SCas
            with argument 1, so that a task which later became a spawner itself and finished is never
            mistaken for one with a free token (the first version reset the argument to 0 there; the
            sched engine's scripted schedule 1 showed the model unlocking where the code does not).
   Threads never disappear: finished ones sit at Done, so indices are stable.  No proofs here. *)
From stdpp Require Import gmap.
From Coq Require Import List.
Import ListNotations.

(* program counters *)
Inductive pc :=
| WPush                 (* writer: TryPush (assumed accepted) *)
| WLoad                 (* scheduleAfterWrite: load drainStatus *)
| WCasReq               (* CAS(idle -> required), result ignored *)
| WCasP2R               (* CAS(processingToIdle -> processingToRequired) *)
| SLoad                 (* scheduleDrainBuffers: load drainStatus *)
| STry                  (* TryLock *)
| SLoad2                (* second load, lock held *)
| SUnlockRet            (* unlock and return (status was already processing) *)
| SStore                (* store processingToIdle *)
| SSpawn                (* executor(drainBuffers(token)) *)
| SCas                  (* token CAS(0 -> 1) by the spawner *)
| SUnlock               (* spawner won the token: unlock *)
| DTry                  (* drainBuffers: TryLock *)
| DCas                  (* token CAS(0 -> 1) by the task *)
| DLock                 (* performCleanUp: Lock (blocking) *)
| CLock                 (* an explicit CleanUp caller: Lock (blocking) *)
| MStore                (* maintenance: store processingToIdle *)
| MDrain                (* drain loop: pop one event, or leave the loop when the buffer is empty *)
| MLoad                 (* load drainStatus *)
| MCas                  (* CAS(processingToIdle -> idle) *)
| MStoreReq             (* store required *)
| MUnlock               (* unlock *)
| RLoad                 (* rescheduleCleanUpIfIncomplete: load drainStatus *)
| Done
| RdLoad                (* a reader in afterRead: shouldDrainBuffers loads drainStatus; argument 1 = the read buffer was full *)
| GLock                 (* GetMaximum / WeightedSize: Lock (blocking) *)
| GLoad                 (* ... load drainStatus under the lock: maintenance only if it is "required" *)
| ILock                 (* InvalidateAll: Lock (blocking) *)
| IDrain                (* ... its own loop over the write buffer (no status access): pop one event, or go on to
                           delete the entries and unlock when the buffer is empty *)
| FTry.                 (* afterWriteTask's retry loop of a writer whose TryPush may be refused (write buffer full).
                           The argument encodes what will happen: >= 3: this TryPush is refused — the writer calls
                           scheduleDrainBuffers (spawned here as a helper thread starting at SLoad, which the same
                           goroutine runs to its end before it tries again: one of the schedules) and tries again
                           with the argument lowered by 2; 2: the TryPush is accepted — the ordinary writer from
                           here on; 1 or 0: the retries are exhausted — performCleanUp(task): Lock, maintenance
                           (the writer's own event is applied directly, never buffered), Unlock, reschedule *)

Global Instance pc_eq_dec : EqDecision pc.
Proof. solve_decision. Defined.

Definition pc_to_nat (p : pc) : nat :=
  match p with
  | WPush => 0 | WLoad => 1 | WCasReq => 2 | WCasP2R => 3 | SLoad => 4 | STry => 5 | SLoad2 => 6
  | SUnlockRet => 7 | SStore => 8 | SSpawn => 9 | SCas => 10 | SUnlock => 11 | DTry => 12 | DCas => 13
  | DLock => 14 | CLock => 15 | MStore => 16 | MDrain => 17 | MLoad => 18 | MCas => 19 | MStoreReq => 20
  | MUnlock => 21 | RLoad => 22 | Done => 23 | RdLoad => 24 | GLock => 25 | GLoad => 26 | ILock => 27 | IDrain => 28 | FTry => 29
  end.
Definition nat_to_pc (n : nat) : pc :=
  match n with
  | 0 => WPush | 1 => WLoad | 2 => WCasReq | 3 => WCasP2R | 4 => SLoad | 5 => STry | 6 => SLoad2
  | 7 => SUnlockRet | 8 => SStore | 9 => SSpawn | 10 => SCas | 11 => SUnlock | 12 => DTry | 13 => DCas
  | 14 => DLock | 15 => CLock | 16 => MStore | 17 => MDrain | 18 => MLoad | 19 => MCas | 20 => MStoreReq
  | 21 => MUnlock | 22 => RLoad | 24 => RdLoad | 25 => GLock | 26 => GLoad | 27 => ILock | 28 => IDrain | 29 => FTry | _ => Done
  end.
Global Instance pc_countable : Countable pc.
Proof. apply (inj_countable' pc_to_nat nat_to_pc). intros []; reflexivity. Defined.

Definition thread : Type := (pc * nat)%type.
Definition dstate : Type := (nat * bool * nat * list thread)%type.

Definition ds_of (s : dstate) : nat := s.1.1.1.
Definition lock_of (s : dstate) : bool := s.1.1.2.
Definition wb_of (s : dstate) : nat := s.1.2.
Definition ths_of (s : dstate) : list thread := s.2.

Definition mk (ds : nat) (lock : bool) (wb : nat) (ths : list thread) : dstate := (ds, lock, wb, ths).

Fixpoint set_nth {A} (i : nat) (x : A) (l : list A) : list A :=
  match l, i with
  | [], _ => []
  | _ :: t, O => x :: t
  | h :: t, S j => h :: set_nth j x t
  end.

(* one step of thread i, if it is enabled *)
Definition dstep (s : dstate) (i : nat) : option dstate :=
  let ds := ds_of s in let lock := lock_of s in let wb := wb_of s in let ths := ths_of s in
  match nth_error ths i with
  | None => None
  | Some (p, a) =>
      let go (ds : nat) (lock : bool) (wb : nat) (p' : pc) (a' : nat) := Some (mk ds lock wb (set_nth i (p', a') ths)) in
      match p with
      | WPush => go ds lock (S wb) WLoad a
      | WLoad =>
          match ds with
          | 0 => go ds lock wb WCasReq a
          | 1 => go ds lock wb SLoad a
          | 2 => go ds lock wb WCasP2R a
          | _ => go ds lock wb Done a
          end
      | WCasReq => go (if Nat.eqb ds 0 then 1 else ds) lock wb SLoad a
      | WCasP2R => if Nat.eqb ds 2 then go 3 lock wb Done a else go ds lock wb WLoad a
      | SLoad => if Nat.leb 2 ds then go ds lock wb Done a else go ds lock wb STry a
      | STry => if lock then go ds lock wb Done a else go ds true wb SLoad2 a
      | SLoad2 => if Nat.leb 2 ds then go ds lock wb SUnlockRet a else go ds lock wb SStore a
      | SUnlockRet => go ds false wb Done a
      | SStore => go 2 lock wb SSpawn a
      | SSpawn =>
          (* the new task is appended: its index is the current number of threads; token = 0 *)
          Some (mk ds lock wb (set_nth i (SCas, length ths) ths ++ [(DTry, 0)]))
      | SCas =>
          match nth_error ths a with
          | Some (tp, 0) => Some (mk ds lock wb (set_nth i (SUnlock, 1) (set_nth a (tp, 1) ths)))
          | _ => go ds lock wb Done 1             (* the task took the token: the lock is now the task's *)
          end
      | SUnlock => go ds false wb Done a
      | DTry => if lock then go ds lock wb DCas a else go ds true wb MStore a
      | DCas => if Nat.eqb a 0 then go ds lock wb MStore 1      (* inherited the spawner's lock *)
                else go ds lock wb DLock a
      | DLock => if lock then None else go ds true wb MStore a
      | CLock => if lock then None else go ds true wb MStore a
      | MStore => go 2 lock wb MDrain a
      | MDrain => match wb with O => go ds lock wb MLoad a | S n => go ds lock n MDrain a end
      | MLoad => if Nat.eqb ds 2 then go ds lock wb MCas a else go ds lock wb MStoreReq a
      | MCas => if Nat.eqb ds 2 then go 0 lock wb MUnlock a else go ds lock wb MStoreReq a
      | MStoreReq => go 1 lock wb MUnlock a
      | MUnlock => go ds false wb RLoad a
      | RLoad => if Nat.eqb ds 1 then go ds lock wb SLoad a else go ds lock wb Done a
      | Done => None
      | RdLoad =>
          (* shouldDrainBuffers: idle -> only when the read could not be buffered; required -> yes; processing -> no *)
          match ds with
          | 0 => if Nat.eqb a 0 then go ds lock wb Done a else go ds lock wb SLoad a
          | 1 => go ds lock wb SLoad a
          | _ => go ds lock wb Done a
          end
      | GLock => if lock then None else go ds true wb GLoad a
      | GLoad => if Nat.eqb ds 1 then go ds lock wb MStore a else go ds lock wb MUnlock a
      | ILock => if lock then None else go ds true wb IDrain a
      | IDrain => match wb with O => go ds lock wb MUnlock a | S n => go ds lock n IDrain a end
      | FTry =>
          match a with
          | S (S (S n)) => Some (mk ds lock wb (set_nth i (FTry, S n) ths ++ [(SLoad, 1)]))
          | 2 => go ds lock wb WPush a
          | _ => go ds lock wb CLock a
          end
      end
  end.

Definition succs (s : dstate) : list dstate :=
  omap (dstep s) (seq 0 (length (ths_of s))).

Definition all_done (s : dstate) : bool := forallb (fun t => bool_decide (t.1 = Done)) (ths_of s).

(* terminal: no thread can move (all done, or blocked forever) *)
Definition terminal (s : dstate) : bool := match succs s with [] => true | _ => false end.

(* what must hold in every terminal configuration *)
Definition drained (s : dstate) : bool :=
  all_done s && Nat.eqb (wb_of s) 0 && Nat.eqb (ds_of s) 0 && negb (lock_of s).

(* initial configuration: [w] writers about to push, [c] explicit CleanUp callers *)
Definition dinit (w c : nat) : dstate := mk 0 false 0 (repeat (WPush, 0) w ++ repeat (CLock, 0) c).

(* ... plus [rd] readers whose read is buffered and [rf] readers that find the read buffer full *)
Definition dinitR (w c rd rf : nat) : dstate :=
  mk 0 false 0 (repeat (WPush, 0) w ++ repeat (CLock, 0) c ++ repeat (RdLoad, 0) rd ++ repeat (RdLoad, 1) rf).

(* ... plus [g] callers of GetMaximum / WeightedSize and [iv] callers of InvalidateAll.  SetMaximum and the
   Hottest / Coldest views are CleanUp callers as far as this protocol goes: Lock, maintenance, Unlock,
   rescheduleCleanUpIfIncomplete. *)
Definition dinitA (w c rd rf g iv : nat) : dstate :=
  mk 0 false 0 (repeat (WPush, 0) w ++ repeat (CLock, 0) c ++ repeat (RdLoad, 0) rd ++ repeat (RdLoad, 1) rf ++
                repeat (GLock, 0) g ++ repeat (ILock, 0) iv).

(* ... plus writers that may find the write buffer full: one per element of [fs], the element saying how often
   its TryPush is refused and whether it is then accepted or the writer runs the maintenance itself *)
Definition dinitF (w c rd rf g iv : nat) (fs : list nat) : dstate :=
  mk 0 false 0 (repeat (WPush, 0) w ++ repeat (CLock, 0) c ++ repeat (RdLoad, 0) rd ++ repeat (RdLoad, 1) rf ++
                repeat (GLock, 0) g ++ repeat (ILock, 0) iv ++ map (fun a => (FTry, a)) fs).

(* ---- exhaustive exploration *)
Fixpoint explore (fuel : nat) (frontier : list dstate) (seen : gset dstate) : option (gset dstate) :=
  match fuel with
  | O => None
  | S f =>
      match frontier with
      | [] => Some seen
      | _ =>
          let '(fr, sn) :=
            fold_left (fun '(fr, sn) s' => if bool_decide (s' ∈ sn) then (fr, sn) else (s' :: fr, {[s']} ∪ sn))
                      (flat_map succs frontier) ([], seen) in
          explore f fr sn
      end
  end.

Definition closed (V : gset dstate) : bool :=
  forallb (fun s => forallb (fun s' => bool_decide (s' ∈ V)) (succs s)) (elements V).

Definition all_terminals_drained (V : gset dstate) : bool :=
  forallb (fun s => implb (terminal s) (drained s)) (elements V).
