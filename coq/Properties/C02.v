(* C02 — Concurrent key-value operations are linearizable.
   Model: Lin.v — threads run lists of operations; one step = one atomic action on the key index
   (hashmap.Get / hashmap.Compute; their atomicity is C15's subject); ComputeIfAbsent and
   ComputeIfPresent are a read followed, when the read does not decide, by a Compute.  Completed
   operations are logged at their decisive action.  Configuration without an expiry calculator
   (the read-extension of deadlines is a separate atomic access).  Loader-backed Get is the protocol
   of C08/C09.  The engine records concurrent histories of the real cache and searches, per key, a
   linearization whose sequential oracle is the same extracted model. *)
From Otter Require Import Base Seq Lin LinProofs.

(* for all programs and all schedules: replaying the operations in the order of their decisive
   actions through the SEQUENTIAL model yields exactly the return values the threads observed and
   the same table.  A decisive action lies between its operation's invocation and response, so this
   order also respects real time. *)
Theorem C02_linearizable : forall c, with_exp c = false -> forall progs sched,
  Forall (fun p => forallb kv_op p = true) progs ->
  let sys := lin_exec c (lin_init progs) sched in
  map r_ret (snd (run c cstate0 (map fst (linlog sys)))) = map snd (linlog sys) /\
  cmap (fst (run c cstate0 (map fst (linlog sys)))) = cmap (shared sys).
Proof.
  intros c NoExp progs sched Hp sys.
  pose proof (lin_exec_inv c NoExp sched (lin_init progs) (lin_init_inv c progs Hp)) as I.
  split; [exact (si_rets c _ I)|exact (si_tbl c _ I)].
Qed.
Print Assumptions C02_linearizable.

(* a compute callback runs inside one atomic action: the second phase of a two-phase compute, run
   at ANY later state, has exactly the effect and result of the whole operation executed atomically
   at that instant — no other write can fall between the value it saw and the value it installed *)
Theorem C02_compute_atomic : forall c, with_exp c = false -> forall s o,
  (exists k f now, o = OComputeIfAbsent k f now) \/ (exists k f now, o = OComputeIfPresent k f now) ->
  NoDup (map fst (cmap s)) ->
  cmap (fst (phase2 c s o)) = cmap (fst (step c s o)) /\ r_ret (snd (phase2 c s o)) = r_ret (snd (step c s o)).
Proof. intros c NoExp s o Ho Hnd. exact (phase2_is_atomic c NoExp s o Ho Hnd). Qed.
Print Assumptions C02_compute_atomic.

(* non-vacuity: two threads race a ComputeIfAbsent against a Set and an Invalidate; whatever the
   schedule, the log replays sequentially (here: one concrete interleaving in which the Set lands
   between the two phases of the ComputeIfAbsent) *)
Example C02_nonvacuous :
  let c := mkCfg false false false false (fun _ _ => 1) (fun _ _ x => x) (fun _ _ _ x => x) (fun _ _ x => x)
                 (fun _ _ x => x) (fun _ _ _ x => x) (fun _ _ _ x => x) (fun _ _ x => x) in
  let progs := [[OComputeIfAbsent 1 (fun _ => RRes 10 OpWrite) 0; OGetIfPresent 1 0];
                [OSet 1 20 0; OInvalidate 1 0]] in
  let sys := lin_exec c (lin_init progs) [0; 1; 0; 1; 0]%nat in
  map snd (linlog sys) = [RVal 20 true; RVal 20 true; RVal 20 true; RVal 0 false].
Proof. vm_compute. reflexivity. Qed.
