(* MpscIndexProofs.v — invariants of the MPSC index protocol (MpscIndex.v) for any number of producers,
   every schedule and any consumer progress. *)
From Coq Require Import List Arith Bool ZArith Lia.
Import ListNotations.
From Otter Require Import MpscIndex.
Local Open Scope Z_scope.

Lemma nth_error_upd_eq {A} (x : A) : forall l i, (i < length l)%nat -> nth_error (upd i x l) i = Some x.
Proof. induction l as [|h t IH]; intros i H; [cbn in H; lia|]. destruct i; cbn [upd nth_error]; [reflexivity|apply IH; cbn in H; lia]. Qed.
Lemma nth_error_upd_neq {A} (x : A) : forall l i j, i <> j -> nth_error (upd i x l) j = nth_error l j.
Proof. induction l as [|h t IH]; intros i j H; [destruct i; reflexivity|]. destruct i, j; cbn [upd nth_error]; try reflexivity; [lia|apply IH; lia]. Qed.
Lemma nth_error_lt {A} (l : list A) i x : nth_error l i = Some x -> (i < length l)%nat.
Proof. intros H. apply nth_error_Some. rewrite H. discriminate. Qed.
Lemma nth_upd_cases {A} (l : list A) i j x u :
  nth_error (upd i x l) j = Some u -> (i < length l)%nat -> (j = i /\ u = x) \/ (j <> i /\ nth_error l j = Some u).
Proof.
  intros H Hi. destruct (Nat.eq_dec j i) as [->|Hn].
  - rewrite nth_error_upd_eq in H by exact Hi. injection H as <-. left; split; reflexivity.
  - rewrite nth_error_upd_neq in H by lia. right; split; assumption.
Qed.
Ltac thr H Hi := apply nth_upd_cases in H; [destruct H as [[-> ->]|[? H]]|exact Hi].

Definition is_rz (t : ith) : bool := match ipc_ t with R0 | R1 => true | _ => false end.
Definition rzc (l : list ith) : nat := length (filter is_rz l).
Definition b2n (b : bool) : nat := if b then 1%nat else 0%nat.
Lemma rzc_cons t l : rzc (t :: l) = (b2n (is_rz t) + rzc l)%nat.
Proof. unfold rzc. cbn [filter]. destruct (is_rz t); reflexivity. Qed.
Lemma rzc_upd x : forall l i old, nth_error l i = Some old -> (rzc (upd i x l) + b2n (is_rz old) = rzc l + b2n (is_rz x))%nat.
Proof.
  induction l as [|h t IH]; intros i old H; [destruct i; discriminate H|].
  destruct i as [|i]; cbn [nth_error upd] in *.
  - injection H as ->. rewrite !rzc_cons. lia.
  - rewrite !rzc_cons. specialize (IH i old H). lia.
Qed.
Lemma rzc_zero l : rzc l = 0%nat -> forall j u, nth_error l j = Some u -> is_rz u = false.
Proof.
  induction l as [|h t IH]; intros H j u Hj; [destruct j; discriminate Hj|]. rewrite rzc_cons in H.
  destruct j as [|j]; cbn [nth_error] in Hj.
  - injection Hj as <-. destruct (is_rz h); [cbn in H; lia|reflexivity].
  - apply (IH ltac:(lia) j u Hj).
Qed.

(* what a thread's stale values are worth, by position *)
Definition th_ok (s : ist) (t : ith) : Prop :=
  match ipc_ t with
  | P0 => True
  | P1 => l_lim t <= ilim s
  | P2 => l_lim t <= ilim s /\ l_p t <= ip s
  | P3 => l_lim t <= ilim s /\ l_p t <= ip s /\ 1 <= l_bcap t <= ibcap s /\
          (irz s = false -> ip s = l_p t -> l_gen t = igen s /\ l_bcap t = ibcap s)
  | S0 => l_lim t <= ilim s /\ l_p t <= ip s /\ 1 <= l_bcap t <= ibcap s /\ l_lim t <= l_p t /\
          (irz s = false -> ip s = l_p t -> l_gen t = igen s /\ l_bcap t = ibcap s)
  | S1 => l_lim t <= ilim s /\ l_p t <= ip s /\ 1 <= l_bcap t <= ibcap s /\ l_lim t <= l_p t /\ l_c t <= ic s /\
          (irz s = false -> ip s = l_p t -> l_gen t = igen s /\ l_bcap t = ibcap s)
  | P4 => l_p t <= ip s /\ l_p t < ilim s /\ l_p t < Z.max (ic s) (ibase s) + ibcap s /\ l_p t < ic s + imax s /\
          (irz s = false -> ip s = l_p t -> l_gen t = igen s /\ l_bcap t = ibcap s)
  | R0 => irz s = true /\ l_p t = ip s /\ l_p t - ic s < imax s
  | R1 => irz s = true /\ l_p t = ip s /\ l_p t + 1 <= ilim s
  | IClaimed _ _ | IFull | IGrown _ _ => True
  end.

Record IInv (s : ist) : Prop := {
  v_cp : 0 <= ic s <= ip s;
  v_base : ibase s <= ip s;
  v_caps : 1 <= ibcap s <= imax s;
  v_lim_buf : ilim s <= Z.max (ic s) (ibase s) + ibcap s;
  v_lim_max : ilim s <= ic s + imax s;
  v_p_lim : ip s <= ilim s;
  v_rz : rzc (iths s) = b2n (irz s);
  v_ths : forall j t, nth_error (iths s) j = Some t -> th_ok s t
}.

(* an unchanged thread's facts survive a step of somebody else *)
Lemma th_stable s s' u :
  th_ok s u ->
  ilim s <= ilim s' -> ip s <= ip s' -> ic s <= ic s' -> ibcap s <= ibcap s' -> imax s' = imax s ->
  (forall x, x <= ip s -> x < Z.max (ic s) (ibase s) + ibcap s -> x < Z.max (ic s') (ibase s') + ibcap s') ->
  (irz s' = false -> forall x, x <= ip s -> ip s' = x -> irz s = false /\ ip s = x /\ igen s' = igen s /\ ibcap s' = ibcap s) ->
  (is_rz u = false \/ (irz s' = irz s /\ ip s' = ip s)) ->
  th_ok s' u.
Proof.
  intros H Hl Hp Hc Hb Hm Hbuf Hcond Hr. unfold th_ok in *. unfold is_rz in Hr.
  destruct (ipc_ u); try exact I.
  - lia.
  - lia.
  - destruct H as (A & B & C & D). split; [lia|]. split; [lia|]. split; [lia|].
    intros E1 E2. destruct (Hcond E1 (l_p u) B E2) as (F1 & F2 & F3 & F4). destruct (D F1 F2) as [G1 G2]. split; [congruence|lia].
  - destruct H as (A & B & C & D0 & D). split; [lia|]. split; [lia|]. split; [lia|]. split; [lia|].
    intros E1 E2. destruct (Hcond E1 (l_p u) B E2) as (F1 & F2 & F3 & F4). destruct (D F1 F2) as [G1 G2]. split; [congruence|lia].
  - destruct H as (A & B & C & D0 & D1 & D). split; [lia|]. split; [lia|]. split; [lia|]. split; [lia|]. split; [lia|].
    intros E1 E2. destruct (Hcond E1 (l_p u) B E2) as (F1 & F2 & F3 & F4). destruct (D F1 F2) as [G1 G2]. split; [congruence|lia].
  - destruct H as (A & B & C & D0 & D). split; [lia|]. split; [lia|]. split; [apply Hbuf; assumption|]. split; [lia|].
    intros E1 E2. destruct (Hcond E1 (l_p u) A E2) as (F1 & F2 & F3 & F4). destruct (D F1 F2) as [G1 G2]. split; [congruence|lia].
  - destruct Hr as [Hr|[R1' R2']]; [discriminate Hr|]. destruct H as (A & B & C). rewrite R1', R2'. split; [assumption|]. split; [assumption|lia].
  - destruct Hr as [Hr|[R1' R2']]; [discriminate Hr|]. destruct H as (A & B & C). rewrite R1', R2'. split; [assumption|]. split; [assumption|lia].
Qed.

(* a step that changes only thread i's own record *)
Lemma inv_local s i t t' :
  IInv s -> nth_error (iths s) i = Some t -> is_rz t' = is_rz t -> th_ok s t' -> IInv (set_ths s (upd i t' (iths s))).
Proof.
  intros I Hi Hr Ht. pose proof (nth_error_lt _ _ _ Hi) as Hlt.
  constructor; cbn [set_ths ip ic ilim ibase ibcap imax igen irz iths]; try apply I.
  - pose proof (rzc_upd t' _ i t Hi) as U. rewrite Hr in U. pose proof (v_rz s I). lia.
  - intros j u Hj. thr Hj Hlt; [exact Ht|exact (v_ths s I j u Hj)].
Qed.

Lemma th_ok_ext s s' u :
  ip s' = ip s -> ic s' = ic s -> ilim s' = ilim s -> ibase s' = ibase s -> ibcap s' = ibcap s -> imax s' = imax s ->
  igen s' = igen s -> irz s' = irz s -> th_ok s u -> th_ok s' u.
Proof. intros E1 E2 E3 E4 E5 E6 E7 E8. unfold th_ok. rewrite E1, E2, E3, E4, E5, E6, E7, E8. exact (fun x => x). Qed.

Lemma no_rz s : IInv s -> irz s = false -> forall j u, nth_error (iths s) j = Some u -> is_rz u = false.
Proof. intros I E. apply rzc_zero. rewrite (v_rz s I), E. reflexivity. Qed.

Lemma rz_unique s i t : IInv s -> nth_error (iths s) i = Some t -> is_rz t = true ->
  forall j u, j <> i -> nth_error (iths s) j = Some u -> is_rz u = false.
Proof.
  intros I Hi Hr j u Hne Hj. destruct (is_rz u) eqn:Eu; [exfalso|reflexivity].
  pose proof (v_rz s I) as Hc. assert (Hb : (b2n (irz s) <= 1)%nat) by (destruct (irz s); cbn; lia).
  pose proof (rzc_upd (with_pc t IFull) (iths s) i t Hi) as U1.
  assert (Hj' : nth_error (upd i (with_pc t IFull) (iths s)) j = Some u) by (rewrite nth_error_upd_neq by lia; exact Hj).
  pose proof (rzc_upd (with_pc u IFull) _ j u Hj') as U2.
  rewrite Hr in U1. rewrite Eu in U2. cbn in U1, U2. lia.
Qed.

Theorem IInv_step s i : IInv s -> IInv (istep s i).
Proof.
  intros I. unfold istep. destruct (nth_error (iths s) i) as [t|] eqn:Hi; [|exact I].
  pose proof (nth_error_lt _ _ _ Hi) as Hlt. pose proof (v_ths s I i t Hi) as Ht.
  pose proof (v_cp s I) as Hcp. pose proof (v_base s I) as Hba. pose proof (v_caps s I) as Hca.
  pose proof (v_lim_buf s I) as Hlb. pose proof (v_lim_max s I) as Hlm. pose proof (v_p_lim s I) as Hpl.
  cbv zeta. destruct (ipc_ t) eqn:Hp; unfold th_ok in Ht; rewrite Hp in Ht.
  - (* P0 *) apply (inv_local s i t); [exact I|exact Hi|unfold is_rz; cbn [ipc_]; rewrite Hp; reflexivity|unfold th_ok; cbn [ipc_ l_lim]; lia].
  - (* P1 *) destruct (irz s) eqn:Er.
    + apply (inv_local s i t); [exact I|exact Hi|unfold is_rz; cbn [with_pc ipc_]; rewrite Hp; reflexivity|exact Logic.I].
    + apply (inv_local s i t); [exact I|exact Hi|unfold is_rz; cbn [ipc_]; rewrite Hp; reflexivity|unfold th_ok; cbn [ipc_ l_lim l_p]; lia].
  - (* P2 *) apply (inv_local s i t); [exact I|exact Hi|unfold is_rz; cbn [ipc_]; rewrite Hp; reflexivity|].
    unfold th_ok. cbn [ipc_ l_lim l_p l_gen l_bcap]. repeat split; try lia.
  - (* P3 *) destruct Ht as (A & B & C & D). destruct (Z.leb_spec (l_lim t) (l_p t)) as [Hle|Hgt].
    + apply (inv_local s i t); [exact I|exact Hi|unfold is_rz; cbn [with_pc ipc_]; rewrite Hp; reflexivity|].
      unfold th_ok. cbn [with_pc ipc_ l_lim l_p l_gen l_bcap l_c]. repeat split; try lia; apply D; assumption.
    + apply (inv_local s i t); [exact I|exact Hi|unfold is_rz; cbn [with_pc ipc_]; rewrite Hp; reflexivity|].
      unfold th_ok. cbn [with_pc ipc_ l_lim l_p l_gen l_bcap l_c]. repeat split; try lia; apply D; assumption.
  - (* S0 *) destruct Ht as (A & B & C & D0 & D).
    apply (inv_local s i t); [exact I|exact Hi|unfold is_rz; cbn [ipc_]; rewrite Hp; reflexivity|].
    unfold th_ok. cbn [ipc_ l_lim l_p l_gen l_bcap l_c]. repeat split; try lia; apply D; assumption.
  - (* S1 *) destruct Ht as (A & B & C & D0 & D1 & D).
    destruct (Z.ltb_spec (l_p t) (l_c t + l_bcap t)) as [Hroom|Hnoroom].
    + destruct (Z.eqb_spec (ilim s) (l_lim t)) as [El|Nl].
      * (* the limit is raised *)
        constructor; cbn [ip ic ilim ibase ibcap imax igen irz iths]; try lia.
        -- pose proof (rzc_upd (with_pc t P4) _ i t Hi) as U. unfold is_rz in U. cbn [with_pc ipc_] in U. rewrite Hp in U. pose proof (v_rz s I). cbn in U. lia.
        -- intros j u Hj. thr Hj Hlt.
           ++ unfold th_ok. cbn [with_pc ipc_ l_lim l_p l_gen l_bcap l_c ip ic ilim ibase ibcap imax igen irz]. repeat split; try lia; apply D; assumption.
           ++ apply (th_stable s _ u (v_ths s I j u Hj)); cbn [ip ic ilim ibase ibcap imax igen irz];
                [lia|lia|lia|lia|reflexivity|intros x _ Hx; exact Hx|intros E x Hx Ex; repeat split; assumption|right; split; reflexivity].
      * apply (inv_local s i t); [exact I|exact Hi|unfold is_rz; cbn [with_pc ipc_]; rewrite Hp; reflexivity|exact Logic.I].
    + destruct (Z.leb_spec (imax s - (l_p t - l_c t)) 0) as [Hfull|Havail].
      * apply (inv_local s i t); [exact I|exact Hi|unfold is_rz; cbn [with_pc ipc_]; rewrite Hp; reflexivity|exact Logic.I].
      * destruct (irz s) eqn:Er; cbn [negb andb].
        -- apply (inv_local s i t); [exact I|exact Hi|unfold is_rz; cbn [with_pc ipc_]; rewrite Hp; reflexivity|exact Logic.I].
        -- destruct (Z.eqb_spec (ip s) (l_p t)) as [Ep|Np].
           ++ (* this producer starts a resize *)
              constructor; cbn [ip ic ilim ibase ibcap imax igen irz iths]; try lia.
              ** pose proof (rzc_upd (with_pc t R0) _ i t Hi) as U. unfold is_rz in U. cbn [with_pc ipc_] in U. rewrite Hp in U.
                 pose proof (v_rz s I) as Hz. rewrite Er in Hz. cbn in U, Hz |- *. lia.
              ** intros j u Hj. thr Hj Hlt.
                 --- unfold th_ok. cbn [with_pc ipc_ l_lim l_p l_gen l_bcap l_c ip ic ilim ibase ibcap imax igen irz]. repeat split; lia.
                 --- apply (th_stable s _ u (v_ths s I j u Hj)); cbn [ip ic ilim ibase ibcap imax igen irz];
                       [lia|lia|lia|lia|reflexivity|intros x _ Hx; exact Hx|intros E; discriminate E|left; apply (no_rz s I Er j u Hj)].
           ++ apply (inv_local s i t); [exact I|exact Hi|unfold is_rz; cbn [with_pc ipc_]; rewrite Hp; reflexivity|exact Logic.I].
  - (* P4 *) destruct Ht as (A & B & C & D0 & D).
    destruct (irz s) eqn:Er; cbn [negb andb].
    + apply (inv_local s i t); [exact I|exact Hi|unfold is_rz; cbn [with_pc ipc_]; rewrite Hp; reflexivity|exact Logic.I].
    + destruct (Z.eqb_spec (ip s) (l_p t)) as [Ep|Np].
      * (* the claim *)
        constructor; cbn [ip ic ilim ibase ibcap imax igen irz iths]; try lia.
        -- pose proof (rzc_upd (with_pc t (IClaimed (l_p t) (l_gen t))) _ i t Hi) as U. unfold is_rz in U. cbn [with_pc ipc_] in U. rewrite Hp in U.
           pose proof (v_rz s I) as Hz. rewrite Er in Hz. cbn in U, Hz |- *. lia.
        -- intros j u Hj. thr Hj Hlt; [exact Logic.I|].
           apply (th_stable s _ u (v_ths s I j u Hj)); cbn [ip ic ilim ibase ibcap imax igen irz];
             [lia|lia|lia|lia|reflexivity|intros x _ Hx; exact Hx|intros E x Hx Ex; lia|left; apply (no_rz s I Er j u Hj)].
      * apply (inv_local s i t); [exact I|exact Hi|unfold is_rz; cbn [with_pc ipc_]; rewrite Hp; reflexivity|exact Logic.I].
  - (* R0: the new buffer *)
    destruct Ht as (A & B & C).
    assert (Hnc : ibcap s <= next_cap s <= imax s) by (unfold next_cap; lia).
    assert (Hr : is_rz t = true) by (unfold is_rz; rewrite Hp; reflexivity).
    constructor; cbn [ip ic ilim ibase ibcap imax igen irz iths]; try lia.
    + pose proof (rzc_upd (with_pc t R1) _ i t Hi) as U. unfold is_rz in U. cbn [with_pc ipc_] in U. rewrite Hp in U.
      pose proof (v_rz s I) as Hz. cbn in U. lia.
    + intros j u Hj. thr Hj Hlt.
      * unfold th_ok. cbn [with_pc ipc_ l_lim l_p l_gen l_bcap l_c ip ic ilim ibase ibcap imax igen irz]. repeat split; try assumption; lia.
      * apply (th_stable s _ u (v_ths s I j u Hj)); cbn [ip ic ilim ibase ibcap imax igen irz];
          [lia|lia|lia|lia|reflexivity|intros x Hx _; lia|intros E; rewrite A in E; discriminate E|left; apply (rz_unique s i t I Hi Hr j u); assumption].
  - (* R1: the resize becomes visible *)
    destruct Ht as (A & B & C).
    assert (Hr : is_rz t = true) by (unfold is_rz; rewrite Hp; reflexivity).
    constructor; cbn [ip ic ilim ibase ibcap imax igen irz iths]; try lia.
    + pose proof (rzc_upd (with_pc t (IGrown (l_p t) (igen s))) _ i t Hi) as U. unfold is_rz in U. cbn [with_pc ipc_] in U. rewrite Hp in U.
      pose proof (v_rz s I) as Hz. rewrite A in Hz. cbn in U, Hz |- *. lia.
    + intros j u Hj. thr Hj Hlt; [exact Logic.I|].
      apply (th_stable s _ u (v_ths s I j u Hj)); cbn [ip ic ilim ibase ibcap imax igen irz];
        [lia|lia|lia|lia|reflexivity|intros x _ Hx; exact Hx|intros _ x Hx Ex; lia|left; apply (rz_unique s i t I Hi Hr j u); assumption].
  - exact I.
  - exact I.
  - exact I.
Qed.

Theorem IInv_cons s : IInv s -> IInv (icons s).
Proof.
  intros I. unfold icons. destruct (Z.ltb_spec (ic s) (ip s)) as [Hlt|Hge]; [|exact I].
  pose proof (v_cp s I) as Hcp. pose proof (v_base s I) as Hba. pose proof (v_caps s I) as Hca.
  pose proof (v_lim_buf s I) as Hlb. pose proof (v_lim_max s I) as Hlm. pose proof (v_p_lim s I) as Hpl.
  constructor; cbn [ip ic ilim ibase ibcap imax igen irz iths]; try lia.
  - apply (v_rz s I).
  - intros j u Hj. apply (th_stable s _ u (v_ths s I j u Hj)); cbn [ip ic ilim ibase ibcap imax igen irz];
      [lia|lia|lia|lia|reflexivity|intros x _ Hx; lia|intros E x Hx Ex; repeat split; assumption|right; split; reflexivity].
Qed.

Lemma IInv_init b0 mx n : 1 <= b0 <= mx -> IInv (iinit b0 mx n).
Proof.
  intros H. constructor; cbn [iinit ip ic ilim ibase ibcap imax igen irz iths]; try lia.
  - induction n as [|n IH]; [reflexivity|]. cbn [repeat]. rewrite rzc_cons. cbn. exact IH.
  - intros j t Hj. apply nth_error_In in Hj. apply repeat_spec in Hj. subst t. exact Logic.I.
Qed.

Theorem IInv_run es : forall s, IInv s -> IInv (irun s es).
Proof.
  induction es as [|e es IH]; intros s I; [exact I|]. cbn [irun fold_left]. apply IH.
  destruct e as [i|]; [apply IInv_step|apply IInv_cons]; exact I.
Qed.

(* ---- what the protocol guarantees ---- *)

(* the claim: when the CAS on the producer index succeeds, the mask/buffer read earlier are the current
   buffer's, the slot lies inside that buffer's free window, and the queue is below its capacity *)
Theorem claim_is_safe s i t : IInv s -> nth_error (iths s) i = Some t -> ipc_ t = P4 ->
  irz s = false -> ip s = l_p t ->
  l_gen t = igen s /\ l_bcap t = ibcap s /\
  Z.max (ic s) (ibase s) <= l_p t < Z.max (ic s) (ibase s) + ibcap s /\ l_p t - ic s < imax s.
Proof.
  intros I Hi Hp Er Ep. pose proof (v_ths s I i t Hi) as Ht. unfold th_ok in Ht. rewrite Hp in Ht.
  destruct Ht as (A & B & C & D0 & D). destruct (D Er Ep) as [G1 G2].
  pose proof (v_cp s I). pose proof (v_base s I). repeat split; try assumption; lia.
Qed.

Theorem size_bounded_always s : IInv s -> 0 <= ip s - ic s <= imax s.
Proof. intros I. pose proof (v_cp s I). pose proof (v_p_lim s I). pose proof (v_lim_max s I). lia. Qed.

Theorem limit_never_decreases s i : IInv s -> ilim s <= ilim (istep s i).
Proof.
  intros I. unfold istep. destruct (nth_error (iths s) i) as [t|] eqn:Hi; [|lia].
  pose proof (v_ths s I i t Hi) as Ht. pose proof (v_cp s I) as Hcp. pose proof (v_base s I) as Hba. pose proof (v_caps s I) as Hca.
  pose proof (v_lim_buf s I) as Hlb. pose proof (v_lim_max s I) as Hlm.
  cbv zeta. unfold th_ok in Ht. destruct (ipc_ t) eqn:Hp; cbn [set_ths ilim]; try lia.
  - destruct (irz s); cbn [set_ths ilim]; lia.
  - destruct (l_lim t <=? l_p t); cbn [set_ths ilim]; lia.
  - destruct Ht as (A & B & C & D0 & D1 & D).
    destruct (Z.ltb_spec (l_p t) (l_c t + l_bcap t)).
    + destruct (Z.eqb_spec (ilim s) (l_lim t)); cbn [set_ths ilim]; lia.
    + destruct (imax s - (l_p t - l_c t) <=? 0); [cbn [set_ths ilim]; lia|].
      destruct (negb (irz s) && (ip s =? l_p t)); cbn [set_ths ilim]; lia.
  - destruct (negb (irz s) && (ip s =? l_p t)); cbn [set_ths ilim]; lia.
  - destruct Ht as (A & B & C). unfold next_cap. lia.
Qed.

(* over runs from a fresh queue *)
Theorem mpsc_index_safe b0 mx n es : 1 <= b0 <= mx ->
  let s := irun (iinit b0 mx n) es in
  0 <= ip s - ic s <= imax s /\
  forall i t, nth_error (iths s) i = Some t -> ipc_ t = P4 -> irz s = false -> ip s = l_p t ->
    l_gen t = igen s /\ l_bcap t = ibcap s /\
    Z.max (ic s) (ibase s) <= l_p t < Z.max (ic s) (ibase s) + ibcap s /\ l_p t - ic s < imax s.
Proof.
  intros H s. pose proof (IInv_run es _ (IInv_init b0 mx n H)) as I. fold s in I.
  split; [apply size_bounded_always; exact I|]. intros i t Hi Hp Er Ep. apply (claim_is_safe s i t I Hi Hp Er Ep).
Qed.
