(* C15 — Concurrent table: nothing lost across resizes, weakly consistent iteration.
   Model: HashMap.v — an executable sequential model of the CLHT table (meta words, chains,
   first-free-slot insertion, grow / shrink / clear with per-table hash seeds).  The implementation is
   replayed on it call by call (results, how often the update function ran and what it saw, size,
   table length, per-bucket chain length and occupancy, exact iteration order), through growth to
   hundreds of buckets and back.

   Proved here (theories/HashMapBytes.v, HashMapRefine.v), for EVERY hash function (one per table
   generation, no assumption on it), every initial table length and every sequence of Get / Compute
   (keep, set, delete, for present and absent keys) / Clear:
     - C15_seq_refines_map: the table answers exactly like a finite map (a function from keys to
       optional values): every Get and the argument every update function sees are the map's, the
       function runs once, and the loop that retries after growing always terminates within its fuel;
     - C15_iteration_exact: in every reachable state iteration yields every binding of the map exactly
       once (no duplicate key, nothing lost, nothing stale) and the size counter equals their number;
     - C15_resize_keeps_everything: growing, shrinking (re-hashing every entry under the new table's
       seed into chains built by appendToBucket) keeps exactly the bindings; clearing leaves none.
   Underneath: the SWAR byte search has no false negatives and, restricted to the five slot bytes,
   visits marked slots in increasing order; setByte/getByte/broadcast byte algebra; a key is stored
   at most once, in the chain its hash selects, under a meta byte equal to its hash byte.
   Concurrent behaviour (lookups / updates / iteration during a resize) is checked by implementation
   oracles only; the atomicity of Get/Compute that C02 assumes is not proved. *)
From Otter Require Import Base HashMap HashMapFacts HashMapBytes HashMapRefine.
From Coq Require Import Permutation.

Theorem C15_seq_refines_map : forall hashf n ops,
  1 <= n -> Z.of_nat (length ops) <= 2 ^ 63 ->
  mrun hashf (hmap_new n) ops = srun (fun _ => None) ops.
Proof.
  intros hashf n ops Hn Hl. destruct (rel_new hashf n Hn) as [HR Hsz].
  exact (proj1 (run_refines hashf ops _ _ 0 HR ltac:(lia) ltac:(lia))).
Qed.
Print Assumptions C15_seq_refines_map.

Theorem C15_iteration_exact : forall hashf n ops,
  1 <= n -> Z.of_nat (length ops) <= 2 ^ 63 ->
  let m := mfinal hashf (hmap_new n) ops in
  let s := sfinal (fun _ => None) ops in
  NoDup (map fst (hmap_range m)) /\ (forall k v, In (k, v) (hmap_range m) <-> s k = Some v) /\
  hsize m = Z.of_nat (length (hmap_range m)).
Proof.
  intros hashf n ops Hn Hl. destruct (rel_new hashf n Hn) as [HR Hsz].
  exact (rel_range hashf _ _ (proj2 (run_refines hashf ops _ _ 0 HR ltac:(lia) ltac:(lia)))).
Qed.
Print Assumptions C15_iteration_exact.

Theorem C15_resize_keeps_everything : forall hashf n ops h,
  1 <= n -> Z.of_nat (length ops) <= 2 ^ 63 ->
  let m := mfinal hashf (hmap_new n) ops in
  HInv hashf (hmap_resize hashf m h) /\
  Permutation (hmap_range (hmap_resize hashf m h)) (match h with Clear => [] | _ => hmap_range m end).
Proof.
  intros hashf n ops h Hn Hl. destruct (rel_new hashf n Hn) as [HR Hsz].
  apply resize_spec. exact (proj1 (proj2 (run_refines hashf ops _ _ 0 HR ltac:(lia) ltac:(lia)))).
Qed.
Print Assumptions C15_resize_keeps_everything.

(* one Compute in any state satisfying the invariant: the function sees the current binding, the
   table afterwards holds exactly the other bindings plus the function's result *)
Theorem C15_compute_exact : forall hashf m key f,
  HInv hashf m -> hsize m <= 2 ^ 63 -> final_post hashf m key f (hmap_compute hashf m key f).
Proof. exact compute_spec. Qed.
Print Assumptions C15_compute_exact.

Theorem C15_get_exact : forall hashf m key,
  HInv hashf m ->
  match hmap_get hashf m key with
  | Some v => In (key, v) (hmap_range m)
  | None => forall v, ~ In (key, v) (hmap_range m)
  end.
Proof. exact get_spec. Qed.
Print Assumptions C15_get_exact.



(* markZeroBytes marks every zero byte of every 64-bit word: a slot whose meta byte equals the
   broadcast hash byte is always visited (false positives are filtered by the key comparison) *)
Theorem C15_swar_no_false_negative : forall w i,
  0 <= w < two64 -> 0 <= i < 8 -> (w / 2 ^ (8 * i)) mod 256 = 0 ->
  Z.testbit (markZeroBytes w) (8 * i + 7) = true.
Proof. exact mark_zero_byte. Qed.
Print Assumptions C15_swar_no_false_negative.

Theorem C15_xor_matches_bytewise : forall a b i,
  0 <= i -> (Z.lxor a b / 2 ^ (8 * i)) mod 256 = Z.lxor ((a / 2 ^ (8 * i)) mod 256) ((b / 2 ^ (8 * i)) mod 256).
Proof. exact lxor_byte. Qed.
Print Assumptions C15_xor_matches_bytewise.

(* a concrete run through growth, collision chains, deletion and shrink: every binding is found,
   the size is exact, iteration yields each binding once *)
Example C15_instance :
  let hashf := fun (g k : Z) => (k * 2654435761 + g * 40503) mod 18446744073709551616 in
  let set m k := fst (hmap_compute hashf m k (fun _ => CSet (k + 1000))) in
  let del m k := fst (hmap_compute hashf m k (fun _ => CDel)) in
  let keys := map Z.of_nat (seq 0 200) in
  let m1 := fold_left set keys (hmap_new 32) in
  let m2 := fold_left del (map Z.of_nat (seq 0 198)) m1 in
  htlen m1 = 64 /\ hsize m1 = 200 /\ length (hmap_range m1) = 200%nat /\
  forallb (fun k => match hmap_get hashf m1 k with Some v => v =? k + 1000 | None => false end) keys = true /\
  hsize m2 = 2 /\ htlen m2 = 32 /\ hmap_get hashf m2 199 = Some 1199 /\ hmap_get hashf m2 5 = None.
Proof. vm_compute. repeat split. Qed.
