(* C05 — Policy bookkeeping agrees with the map at quiescence.
   Model: Maint.v over Policy.v / Wheel.v; the implementation is replayed task by task on the
   extracted model and every deque, counter, wheel bucket and node state is compared after every
   operation (engine "maint"), in addition to the implementation-only view oracles.
   Theorems below: the repaired out-of-order handling of policy.update and the counters' behaviour;
   the all-event-lists invariant is C05_inv in theories/PolicyInv.v when present (DESIGN 5). *)
From Otter Require Import Base Sketch Policy Wheel Maint PolicyFacts.

(* the repaired update: whenever the new node is no longer alive or the old one is not linked
   (its add still pending, or already evicted), update is delete(old) followed by add(new) *)
Theorem C05_update_out_of_order : forall hashf p n old,
  pstate (node_of p n) <> ALIVE \/ pol_contains p old = false ->
  pol_update hashf p n old = pol_add hashf (pol_delete p old) n.
Proof.
  intros hashf p n old H. unfold pol_update.
  destruct H as [H|H].
  - replace (pstate (node_of p n) =? ALIVE) with false by lia. reflexivity.
  - rewrite H. rewrite orb_true_r. reflexivity.
Qed.
Print Assumptions C05_update_out_of_order.

(* weights never change once a node exists: evicting any node leaves every weight as it was *)
Theorem C05_weights_immutable : forall p id x, pweight (node_of (pol_evict p id) x) = pweight (node_of p x).
Proof. exact pol_evict_weight. Qed.
Print Assumptions C05_weights_immutable.

(* the deterministic witness of the original defect (Set(1,a); Set(1,b) before the first drain),
   replayed on the repaired model: the second node ends up linked, counted once, and the first dead *)
Example C05_out_of_order_witness_repaired :
  let h := fun _ k => k in
  let m0 := m_set_maximum (mstate0 true false false) 10 1 7 in
  let m1 := m_push (m_new m0 101 1 1) (TAdd 101) in
  let m2 := m_push (m_retire (m_new m1 102 1 1) 101) (TUpd 102 101) in
  let '(m3, _, _, _) := m_maintenance h (fun _ => 0) 1 0 m2 in
  (qwin (pol m3) ++ qprob (pol m3) ++ qprot (pol m3) = [102]) /\ wsize (pol m3) = 1 /\
  pstate (node_of (pol m3) 101) = DEAD /\ pstate (node_of (pol m3) 102) = ALIVE.
Proof. vm_compute. repeat split. Qed.

(* the same with the tasks arriving in the opposite order (update before add) *)
Example C05_update_before_add_repaired :
  let h := fun _ k => k in
  let m0 := m_set_maximum (mstate0 true false false) 10 1 7 in
  let m1 := m_new m0 101 1 1 in
  let m2 := m_retire (m_new m1 102 1 1) 101 in
  let m3 := m_push (m_push m2 (TUpd 102 101)) (TAdd 101) in
  let '(m4, _, _, _) := m_maintenance h (fun _ => 0) 1 0 m3 in
  (qwin (pol m4) ++ qprob (pol m4) ++ qprot (pol m4) = [102]) /\ wsize (pol m4) = 1 /\ wwsize (pol m4) = 1 /\
  pstate (node_of (pol m4) 101) = DEAD.
Proof. vm_compute. repeat split. Qed.
