HOOK_COMMITS = ["74bf6ff"]

ALL = ["C%02d" % i for i in range(1, 21)]

TEXTS = {
    "C18": dict(
        text="Coq theorems over an executable transcription of sketch.go / policy.admit / RoundUpPowerOf264 on 64-bit words: "
             "for every raw key hash, every table length 8*2^k and every recording sequence inside a sampling period the estimate is "
             "at least min(15, recorded), never above 15, halved by the aging step, zero before initialisation; ensureCapacity gives the "
             "least power of two (>= 8) for every capacity; admit is equivalent to 'strictly greater, or >= 6 and rand&127 = 0'. "
             "The model is tied to the code by replaying the implementation's calls (raw hashes read from its hasher) and comparing the "
             "entire table, size, sampleSize and every answer after each call.",
        design_ref="DESIGN.md section 5, C18",
        note="Trusted: Coq kernel; extraction (ExtrOcamlBasic); OCaml replayer; Go harness + verif_export.go. maphash and math/rand are inputs, not modelled. "
             "The tie model<->code is differential testing over generated call sequences.",
        technique="Coq proof (invariant by induction over recordings; bit-level lemmas) + model/implementation correspondence replay",
    ),
}

NOT_APPLICABLE = [dict(property_id=p, reason="check not built yet in this revision (work in progress; see DESIGN.md section 9)")
                  for p in ALL if p not in TEXTS]
