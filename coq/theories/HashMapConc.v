(* HashMapConc.v — small-step model of the concurrency protocol of internal/hashmap/map.go: writers
   (Compute) lock the root bucket of the table they loaded, step back when a resize is in progress or a
   newer table exists, and otherwise update the bucket; a resize takes the [resizing] flag, copies the
   current table bucket by bucket — each under that bucket's lock — into a private new table, publishes
   it and releases the flag.  One step = one access to shared state (the update of a bucket and the copy
   of a bucket, both made under the bucket's lock, are one step each).

   What the sequential theorem (HashMapRefine.v) established is taken as the abstraction here: a table
   version is a store from keys to optional values plus one lock per root bucket, and a key lives in
   the bucket its hash selects ([hidx g k mod length]).  [spec] is a ghost: the map obtained by applying
   the writers' functions in the order of their update steps.  Clear is not in the model (it discards
   in-flight updates, which then linearize before it).

   Readers (Get) are lock-free: G0 loads the table pointer, G1 reads the key's binding in that table
   (one atomic step: a key's binding lives in one slot that never moves within a table version — the
   sequential theorem's bucket-chain layout; the word-by-word scan itself is exercised by the hmap
   engine).  Ghosts used only to state what a reader may see: [hist] is the list of all values of the
   abstract map so far (one more per update), [froz g] the index in [hist] at which version g was
   replaced, [hst] the length of [hist] when the reader loaded its table, [hwit] the index of the map
   it is shown to have read, [happ] how many times a writer has applied its function.

   Iteration (Range) loads the table pointer once (I0) and then reads the buckets of that table in order,
   each in one step under the bucket's lock (I1): [hyield] is what it has yielded so far, per key (a key
   lives in one bucket of a table version, so it is yielded at most once — the sequential theorems'
   layout), [hwitf] the ghost index of the map each key's binding was read from.

   Size: every table version has a counter [cnt]; a writer adds what its update owes (+1 insert, -1
   delete) AFTER releasing the bucket lock (step Wadd), to the table it updated; a resize counts the
   entries it copies and the new table starts with that count.  No proofs here. *)
From Coq Require Import List Arith Bool ZArith.
Import ListNotations.
Local Open Scope nat_scope.

Inductive hpc :=
| W0 | W1 | W2 | Wwait | W3 | W4 | W5 | Wadd | W6
| R0 | Rwait | R1 | R2 | R3
| HDone
| G0 | G1 | GDone
| I0 | I1 | IDone.

Record hthread := mkHth {
  hpc_ : hpc; hkey : Z; hfun : option Z -> option Z;
  hsnap : nat; hbi : nat;                       (* the table version loaded, the bucket locked *)
  hcop : nat -> bool; hnt : Z -> option Z; hnlen : nat;   (* resize: buckets copied, private new table, its length *)
  hretry : bool;                                  (* the resize was requested before the update: retry afterwards *)
  hres : option Z;                                (* reader: the value read *)
  hst : nat; hwit : nat; happ : nat;              (* ghosts *)
  hyield : Z -> option Z;                         (* iteration: what has been yielded, per key *)
  hwitf : Z -> nat;                               (* ghost: per key, index of the map it was read from *)
  hdelta : Z;                                     (* writer: the size adjustment it owes its table (+1 insert, -1 delete) *)
  hncnt : Z }.                                    (* resize: entries copied so far (the new table's size counter) *)

Record hcstate := mkHcs {
  lens : list nat;                      (* length (number of root buckets) of every table version *)
  stores : nat -> Z -> option Z;        (* contents of every table version *)
  lk : nat -> nat -> bool;              (* bucket locks: version, bucket *)
  hcur : nat;                           (* the version m.table points to *)
  resizing : bool;
  spec : Z -> option Z;                 (* ghost: the abstract map *)
  hist : list (Z -> option Z);          (* ghost: every value the abstract map has had, oldest first *)
  froz : nat -> nat;                    (* ghost: index in hist at which a version was replaced *)
  cnt : nat -> Z;                       (* the size counter of every table version *)
  ulog : list nat;                      (* ghost: the threads in the order of their update steps *)
  hths : list hthread }.

Section Model.
Variable hidx : nat -> Z -> nat.        (* the hash of a key under the seed of table version g *)
Variable U : list Z.                    (* the keys of the run (a resize counts the entries it copies among them) *)

Definition len_of (s : hcstate) (g : nat) : nat := nth g (lens s) 1.
Definition bidx_of (s : hcstate) (g : nat) (k : Z) : nat := hidx g k mod len_of s g.

Definition upd_fun {A} (f : Z -> A) (k : Z) (v : A) : Z -> A := fun k' => if Z.eqb k' k then v else f k'.
Definition upd_fun2 (f : nat -> nat -> bool) (g i : nat) (v : bool) : nat -> nat -> bool :=
  fun g' i' => if Nat.eqb g' g && Nat.eqb i' i then v else f g' i'.
Definition upd_store (st : nat -> Z -> option Z) (g : nat) (m : Z -> option Z) : nat -> Z -> option Z :=
  fun g' => if Nat.eqb g' g then m else st g'.

Fixpoint upd_nth {A} (i : nat) (x : A) (l : list A) : list A :=
  match l, i with
  | [], _ => []
  | _ :: t, O => x :: t
  | h :: t, S j => h :: upd_nth j x t
  end.

Definition is_some {A} (x : option A) : bool := match x with Some _ => true | None => false end.
(* what an update owes the table's size counter *)
Definition delta_of (old new : option Z) : Z :=
  match old, new with None, Some _ => 1%Z | Some _, None => (-1)%Z | _, _ => 0%Z end.

Definition set_pc (t : hthread) (p : hpc) : hthread :=
  mkHth p (hkey t) (hfun t) (hsnap t) (hbi t) (hcop t) (hnt t) (hnlen t) (hretry t) (hres t) (hst t) (hwit t) (happ t) (hyield t) (hwitf t) (hdelta t) (hncnt t).

(* after a resize: a writer that asked for it before its update tries again *)
Definition ret_pc (t : hthread) : hthread :=
  mkHth (if hretry t then W0 else HDone) (hkey t) (hfun t) (hsnap t) (hbi t) (hcop t) (hnt t) (hnlen t) false (hres t) (hst t) (hwit t) (happ t) (hyield t) (hwitf t) (hdelta t) (hncnt t).

Definition with_ths (s : hcstate) (i : nat) (t : hthread) : hcstate :=
  mkHcs (lens s) (stores s) (lk s) (hcur s) (resizing s) (spec s) (hist s) (froz s) (cnt s) (ulog s) (upd_nth i t (hths s)).

(* one step of thread i; [o] is the step's input: at W4 whether the table must grow first, at W6 whether
   a shrink is attempted, at R0 whether the attempt gives up, at R1 which bucket is copied next *)
Definition hstep (s : hcstate) (i o : nat) : hcstate :=
  match nth_error (hths s) i with
  | None => s
  | Some t =>
      match hpc_ t with
      | W0 => with_ths s i (mkHth W1 (hkey t) (hfun t) (hcur s) (bidx_of s (hcur s) (hkey t)) (hcop t) (hnt t) (hnlen t) (hretry t) (hres t) (hst t) (hwit t) (happ t) (hyield t) (hwitf t) (hdelta t) (hncnt t))
      | W1 => if lk s (hsnap t) (hbi t) then s
              else mkHcs (lens s) (stores s) (upd_fun2 (lk s) (hsnap t) (hbi t) true) (hcur s) (resizing s) (spec s) (hist s) (froz s) (cnt s) (ulog s)
                         (upd_nth i (set_pc t W2) (hths s))
      | W2 => if resizing s
              then mkHcs (lens s) (stores s) (upd_fun2 (lk s) (hsnap t) (hbi t) false) (hcur s) (resizing s) (spec s) (hist s) (froz s) (cnt s) (ulog s)
                         (upd_nth i (set_pc t Wwait) (hths s))
              else with_ths s i (set_pc t W3)
      | Wwait => if resizing s then s else with_ths s i (set_pc t W0)
      | W3 => if Nat.eqb (hcur s) (hsnap t) then with_ths s i (set_pc t W4)
              else mkHcs (lens s) (stores s) (upd_fun2 (lk s) (hsnap t) (hbi t) false) (hcur s) (resizing s) (spec s) (hist s) (froz s) (cnt s) (ulog s)
                         (upd_nth i (set_pc t W0) (hths s))
      | W4 => match o with
              | 0 =>
                mkHcs (lens s)
                    (upd_store (stores s) (hsnap t) (upd_fun (stores s (hsnap t)) (hkey t) (hfun t (stores s (hsnap t) (hkey t)))))
                    (lk s) (hcur s) (resizing s)
                    (upd_fun (spec s) (hkey t) (hfun t (spec s (hkey t))))
                    (hist s ++ [upd_fun (spec s) (hkey t) (hfun t (spec s (hkey t)))]) (froz s) (cnt s) (ulog s ++ [i])
                    (upd_nth i (mkHth W5 (hkey t) (hfun t) (hsnap t) (hbi t) (hcop t) (hnt t) (hnlen t) (hretry t) (hres t) (hst t) (hwit t) (S (happ t)) (hyield t) (hwitf t)
                                      (delta_of (stores s (hsnap t) (hkey t)) (hfun t (stores s (hsnap t) (hkey t)))) (hncnt t)) (hths s))
              | _ =>  (* chain full, table over its load factor: unlock, grow, retry *)
                mkHcs (lens s) (stores s) (upd_fun2 (lk s) (hsnap t) (hbi t) false) (hcur s) (resizing s) (spec s) (hist s) (froz s) (cnt s) (ulog s)
                    (upd_nth i (mkHth R0 (hkey t) (hfun t) (hsnap t) (hbi t) (hcop t) (hnt t) 1 true (hres t) (hst t) (hwit t) (happ t) (hyield t) (hwitf t) (hdelta t) (hncnt t)) (hths s))
              end
      | W5 => mkHcs (lens s) (stores s) (upd_fun2 (lk s) (hsnap t) (hbi t) false) (hcur s) (resizing s) (spec s) (hist s) (froz s) (cnt s) (ulog s)
                    (upd_nth i (set_pc t Wadd) (hths s))
      | Wadd => mkHcs (lens s) (stores s) (lk s) (hcur s) (resizing s) (spec s) (hist s) (froz s)
                      (fun g => if Nat.eqb g (hsnap t) then (cnt s g + hdelta t)%Z else cnt s g) (ulog s)
                      (upd_nth i (set_pc t W6) (hths s))
      | W6 => match o with
              | 0 => with_ths s i (set_pc t HDone)
              | _ => with_ths s i (mkHth R0 (hkey t) (hfun t) (hsnap t) (hbi t) (hcop t) (hnt t) 0 false (hres t) (hst t) (hwit t) (happ t) (hyield t) (hwitf t) (hdelta t) (hncnt t))   (* shrink *)
              end
      | R0 => if resizing s then with_ths s i (set_pc t Rwait)
              else
                match o with
                | 0 =>
                  let n := len_of s (hcur s) in
                  let nl := if Nat.eqb (hnlen t) 1 then 2 * n else Nat.max 1 (n / 2) in
                  mkHcs (lens s) (stores s) (lk s) (hcur s) true (spec s) (hist s) (froz s) (cnt s) (ulog s)
                      (upd_nth i (mkHth R1 (hkey t) (hfun t) (hcur s) (hbi t) (fun _ => false) (fun _ => None) nl (hretry t) (hres t) (hst t) (hwit t) (happ t) (hyield t) (hwitf t) (hdelta t) 0%Z) (hths s))
                | _ =>  (* takes the flag, finds nothing to do, gives up *)
                  mkHcs (lens s) (stores s) (lk s) (hcur s) true (spec s) (hist s) (froz s) (cnt s) (ulog s) (upd_nth i (set_pc t R3) (hths s))
                end
      | Rwait => if resizing s then s else with_ths s i (ret_pc t)
      | R1 => if forallb (hcop t) (seq 0 (len_of s (hsnap t))) then with_ths s i (set_pc t R2)
              else if Nat.ltb o (len_of s (hsnap t)) && negb (hcop t o) && negb (lk s (hsnap t) o)
              then with_ths s i (mkHth R1 (hkey t) (hfun t) (hsnap t) (hbi t)
                                       (fun b => if Nat.eqb b o then true else hcop t b)
                                       (fun k => if Nat.eqb (bidx_of s (hsnap t) k) o then stores s (hsnap t) k else hnt t k)
                                       (hnlen t) (hretry t) (hres t) (hst t) (hwit t) (happ t) (hyield t) (hwitf t) (hdelta t)
                                       (hncnt t + Z.of_nat (length (filter (fun k => Nat.eqb (bidx_of s (hsnap t) k) o && is_some (stores s (hsnap t) k)) U)))%Z)
              else s
      | R2 => mkHcs (lens s ++ [hnlen t]) (upd_store (stores s) (length (lens s)) (hnt t)) (lk s) (length (lens s)) (resizing s) (spec s)
                    (hist s) (fun g => if Nat.eqb g (hcur s) then length (hist s) - 1 else froz s g)
                    (fun g => if Nat.eqb g (length (lens s)) then hncnt t else cnt s g) (ulog s)
                    (upd_nth i (set_pc t R3) (hths s))
      | R3 => mkHcs (lens s) (stores s) (lk s) (hcur s) false (spec s) (hist s) (froz s) (cnt s) (ulog s) (upd_nth i (ret_pc t) (hths s))
      | HDone => s
      | G0 => with_ths s i (mkHth G1 (hkey t) (hfun t) (hcur s) (hbi t) (hcop t) (hnt t) (hnlen t) (hretry t) (hres t) (length (hist s)) (hwit t) (happ t) (hyield t) (hwitf t) (hdelta t) (hncnt t))
      | G1 => with_ths s i (mkHth GDone (hkey t) (hfun t) (hsnap t) (hbi t) (hcop t) (hnt t) (hnlen t) (hretry t)
                                  (stores s (hsnap t) (hkey t)) (hst t)
                                  (if Nat.eqb (hsnap t) (hcur s) then length (hist s) - 1 else froz s (hsnap t)) (happ t) (hyield t) (hwitf t) (hdelta t) (hncnt t))
      | GDone => s
      | I0 => with_ths s i (mkHth I1 (hkey t) (hfun t) (hcur s) 0 (hcop t) (hnt t) (hnlen t) (hretry t) (hres t) (length (hist s)) (hwit t) (happ t)
                                  (fun _ => None) (fun _ => 0) (hdelta t) (hncnt t))
      | I1 => if Nat.ltb (hbi t) (len_of s (hsnap t)) then
                if lk s (hsnap t) (hbi t) then s
                else with_ths s i (mkHth I1 (hkey t) (hfun t) (hsnap t) (S (hbi t)) (hcop t) (hnt t) (hnlen t) (hretry t) (hres t) (hst t) (hwit t) (happ t)
                       (fun k => if Nat.eqb (bidx_of s (hsnap t) k) (hbi t) then stores s (hsnap t) k else hyield t k)
                       (fun k => if Nat.eqb (bidx_of s (hsnap t) k) (hbi t)
                                 then (if Nat.eqb (hsnap t) (hcur s) then length (hist s) - 1 else froz s (hsnap t))
                                 else hwitf t k) (hdelta t) (hncnt t))
              else with_ths s i (set_pc t IDone)
      | IDone => s
      end
  end.

Definition hrun (s : hcstate) (sched : list (nat * nat)) : hcstate :=
  fold_left (fun s e => hstep s (fst e) (snd e)) sched s.

(* one table of [n0] >= 1 buckets, empty; every thread is a Compute about to load the table, a Get, or a Range *)
Inductive hop := HCompute (k : Z) (f : option Z -> option Z) | HGet (k : Z) | HRange.

Definition thread_of (o : hop) : hthread :=
  match o with
  | HCompute k f => mkHth W0 k f 0 0 (fun _ => false) (fun _ => None) 0 false None 0 0 0 (fun _ => None) (fun _ => 0) 0%Z 0%Z
  | HGet k => mkHth G0 k (fun v => v) 0 0 (fun _ => false) (fun _ => None) 0 false None 0 0 0 (fun _ => None) (fun _ => 0) 0%Z 0%Z
  | HRange => mkHth I0 0%Z (fun v => v) 0 0 (fun _ => false) (fun _ => None) 0 false None 0 0 0 (fun _ => None) (fun _ => 0) 0%Z 0%Z
  end.

Definition hinit (n0 : nat) (ops : list hop) : hcstate :=
  mkHcs [n0] (fun _ _ => None) (fun _ _ => false) 0 false (fun _ => None) [fun _ => None] (fun _ => 0) (fun _ => 0%Z) [] (map thread_of ops).

End Model.
