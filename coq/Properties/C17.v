(* C17 — The lossy read buffer may drop reads but never corrupts them.
   Model: Ring.v — one step per atomic access of ring.add / ring.drainTo; any number of producer
   threads, one consumer; a schedule is an arbitrary list of (thread, payload). *)
From Otter Require Import Base Ring RingProofs.

(* the protocol invariant holds after every schedule, from a fresh ring, for any number of producers *)
Theorem C17_inv : forall first nprod sched, inv (ring_exec (ring_init first nprod) sched).
Proof. intros. apply ring_exec_inv. apply inv_init. Qed.
Print Assumptions C17_inv.

(* what the consumer handed to the policy is a prefix of what was recorded (ring order): nothing
   that was not recorded, nothing twice *)
Theorem C17_delivered_prefix : forall first nprod sched,
  let r := ring_exec (ring_init first nprod) sched in exists rest, recorded r = delivered r ++ rest.
Proof. intros. apply inv_delivered_prefix. apply C17_inv. Qed.
Print Assumptions C17_delivered_prefix.

(* never more than the fixed capacity between head and tail *)
Theorem C17_capacity : forall first nprod sched,
  let r := ring_exec (ring_init first nprod) sched in 0 <= rtail r - rhead r <= 16.
Proof. intros. apply inv_capacity. apply C17_inv. Qed.
Print Assumptions C17_capacity.

(* a producer that reports Success has its element recorded; Failed / Full record nothing:
   the recorded list grows only at a successful tail CAS *)
Theorem C17_recorded_iff_cas : forall r j payload,
  recorded (prod_step r j payload) = recorded r \/
  exists n h, nth j (rprods r) (PDone 0) = PCas n h (rtail r) /\ recorded (prod_step r j payload) = recorded r ++ [n].
Proof.
  intros r j payload. unfold prod_step. destruct (nth j (rprods r) (PDone 0)) as [|n|n h|n h t|n t|st] eqn:E; cbn; auto.
  - destruct (rtail r - h >=? RSIZE); cbn; auto.
  - destruct (rtail r =? t) eqn:Et; cbn; auto. right. exists n, h. apply Z.eqb_eq in Et. subst t. auto.
Qed.
Print Assumptions C17_recorded_iff_cas.

(* once no producer is between its CAS and its store, one drain delivers every recorded element *)
Theorem C17_quiescent_drain : forall first nprod sched,
  let r := ring_exec (ring_init first nprod) sched in
  quiescent r -> rcons r = CIdle ->
  exists n, let r' := iter_cons n r in rcons r' = CIdle /\ delivered r' = recorded r /\ rhead r' = rtail r.
Proof. intros first nprod sched r Q C. apply quiescent_drain; [apply C17_inv|assumption|assumption]. Qed.
Print Assumptions C17_quiescent_drain.

(* non-vacuity: two producers race for the same index, one loses the CAS; the consumer stops at
   the unpublished slot and later delivers everything *)
Example C17_nonvacuous :
  let ev (t : nat) (x : Z) : nat * Z := (t, x) in
  let r0 := ring_init 100 2 in
  (* both producers reach the CAS for index 1: producer 1 wins, producer 2 fails *)
  let r1 := ring_exec r0 [ev 1%nat 7; ev 2%nat 8; ev 1%nat 0; ev 2%nat 0; ev 1%nat 0; ev 2%nat 0; ev 1%nat 0; ev 2%nat 0] in
  (* consumer: delivers 100, stops at the unpublished slot of 7 *)
  let r2 := ring_exec r1 [ev 0%nat 0; ev 0%nat 0; ev 0%nat 0; ev 0%nat 0; ev 0%nat 0; ev 0%nat 0] in
  (* producer 1 publishes; a second drain delivers 7 *)
  let r3 := ring_exec r2 [ev 1%nat 0; ev 0%nat 0; ev 0%nat 0; ev 0%nat 0; ev 0%nat 0; ev 0%nat 0; ev 0%nat 0; ev 0%nat 0; ev 0%nat 0] in
  recorded r1 = [100; 7] /\ nth 1 (rprods r1) PIdle = PDone (-1) /\ delivered r2 = [100] /\ delivered r3 = [100; 7].
Proof. vm_compute. repeat split. Qed.
