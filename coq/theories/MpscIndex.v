(* MpscIndex.v — the index protocol of the MPSC write buffer's TryPush at the granularity of its
   individual loads and CASes (internal/deque/queue/mpsc.go): a producer reads the producer limit, the
   producer index (spinning while a resize is in progress), the mask/buffer, and — only when the index has
   reached the limit — the consumer index, to raise the limit, refuse, or grow the buffer; then it claims
   its slot by a CAS on the producer index.  Every one of these values may be stale by the time it is
   used.  What is proved, for any number of producers, all schedules and any consumer progress:

     - a successful claim is for a slot of the CURRENT buffer (the mask read before the CAS is still the
       buffer's) that no unconsumed element occupies, however stale the limit it relied on — also across a
       resize in between, because buffers only grow;
     - the queue never holds more than its capacity;
     - the producer limit never decreases.

   MpscConc.v takes the claim ("reserve") as one atomic step with an exact fullness test; this file
   justifies that granularity.  Indices are in elements (the code doubles them and uses the low bit of the
   producer index as the resize flag: [resizing]).  The consumer is abstract: it may consume any claimed
   index (a slower consumer only makes producers refuse more).  No proofs of element placement here. *)
From Coq Require Import List Arith Bool ZArith Lia.
Import ListNotations.
Local Open Scope Z_scope.

Inductive ipc :=
| P0 | P1 | P2 | P3 | S0 | S1 | P4 | R0 | R1
| IClaimed (slot : Z) (g : nat)      (* TryPush returned true: the slot claimed, the buffer generation used *)
| IFull                              (* TryPush returned false *)
| IGrown (slot : Z) (g : nat).       (* the element was placed by resize in the new buffer *)

Record ith := mkIth { ipc_ : ipc; l_lim : Z; l_p : Z; l_gen : nat; l_bcap : Z; l_c : Z }.

Record ist := mkIst {
  ip : Z; ic : Z; ilim : Z;
  ibase : Z;                (* first index of the current producer buffer *)
  ibcap : Z;                (* its capacity (getCurrentBufferCapacity) *)
  imax : Z;                 (* the queue's capacity *)
  igen : nat;               (* generation of the current producer buffer *)
  irz : bool;               (* a resize is in progress (the producer index is odd) *)
  iths : list ith }.

Fixpoint upd {A} (i : nat) (x : A) (l : list A) : list A :=
  match l, i with
  | [], _ => []
  | _ :: t, O => x :: t
  | h :: t, S j => h :: upd j x t
  end.

Definition set_ths (s : ist) (l : list ith) : ist := mkIst (ip s) (ic s) (ilim s) (ibase s) (ibcap s) (imax s) (igen s) (irz s) l.
Definition with_pc (t : ith) (p : ipc) : ith := mkIth p (l_lim t) (l_p t) (l_gen t) (l_bcap t) (l_c t).

(* the capacity of the next buffer: doubled, the last one as large as the queue *)
Definition next_cap (s : ist) : Z := Z.min (2 * ibcap s) (imax s).

(* one step of producer i *)
Definition istep (s : ist) (i : nat) : ist :=
  let nc := next_cap s in
  match nth_error (iths s) i with
  | None => s
  | Some t =>
      match ipc_ t with
      | P0 => set_ths s (upd i (mkIth P1 (ilim s) (l_p t) (l_gen t) (l_bcap t) (l_c t)) (iths s))
      | P1 => if irz s then set_ths s (upd i (with_pc t P0) (iths s))
              else set_ths s (upd i (mkIth P2 (l_lim t) (ip s) (l_gen t) (l_bcap t) (l_c t)) (iths s))
      | P2 => set_ths s (upd i (mkIth P3 (l_lim t) (l_p t) (igen s) (ibcap s) (l_c t)) (iths s))
      | P3 => if l_lim t <=? l_p t then set_ths s (upd i (with_pc t S0) (iths s))
              else set_ths s (upd i (with_pc t P4) (iths s))
      | S0 => set_ths s (upd i (mkIth S1 (l_lim t) (l_p t) (l_gen t) (l_bcap t) (ic s)) (iths s))
      | S1 =>
          if l_p t <? l_c t + l_bcap t then
            (* room in this buffer: raise the limit *)
            if ilim s =? l_lim t
            then mkIst (ip s) (ic s) (l_c t + l_bcap t) (ibase s) (ibcap s) (imax s) (igen s) (irz s) (upd i (with_pc t P4) (iths s))
            else set_ths s (upd i (with_pc t P0) (iths s))
          else if imax s - (l_p t - l_c t) <=? 0 then set_ths s (upd i (with_pc t IFull) (iths s))
          else if negb (irz s) && (ip s =? l_p t)
               then mkIst (ip s) (ic s) (ilim s) (ibase s) (ibcap s) (imax s) (igen s) true (upd i (with_pc t R0) (iths s))
               else set_ths s (upd i (with_pc t P0) (iths s))
      | P4 => if negb (irz s) && (ip s =? l_p t)
              then mkIst (ip s + 1) (ic s) (ilim s) (ibase s) (ibcap s) (imax s) (igen s) (irz s)
                         (upd i (with_pc t (IClaimed (l_p t) (l_gen t))) (iths s))
              else set_ths s (upd i (with_pc t P0) (iths s))
      | R0 => (* new buffer: its first index is the resizer's; the limit is stored, not CASed *)
              mkIst (ip s) (ic s) (l_p t + Z.min nc (imax s - (l_p t - ic s))) (l_p t) nc (imax s) (S (igen s)) (irz s)
                    (upd i (with_pc t R1) (iths s))
      | R1 => mkIst (l_p t + 1) (ic s) (ilim s) (ibase s) (ibcap s) (imax s) (igen s) false
                    (upd i (with_pc t (IGrown (l_p t) (igen s))) (iths s))
      | IClaimed _ _ | IFull | IGrown _ _ => s
      end
  end.

(* the consumer consumes one claimed index *)
Definition icons (s : ist) : ist :=
  if ic s <? ip s then mkIst (ip s) (ic s + 1) (ilim s) (ibase s) (ibcap s) (imax s) (igen s) (irz s) (iths s) else s.

Inductive iev := EvP (i : nat) | EvC.
Definition iapply (s : ist) (e : iev) : ist := match e with EvP i => istep s i | EvC => icons s end.
Definition irun (s : ist) (es : list iev) : ist := fold_left iapply es s.

(* a fresh queue: one buffer of capacity b0 <= mx, n producers about to start *)
Definition iinit (b0 mx : Z) (n : nat) : ist :=
  mkIst 0 0 b0 0 b0 mx O false (repeat (mkIth P0 0 0 O 0 0) n).
