(* Adder.v — small-step model of internal/xsync/adder.go (the striped counter behind every
   statistic of stats.Counter): one step = one atomic access.
   Any number of threads; a thread is idle, inside Add(delta) (load of its stripe, then one CAS
   attempt; a failed CAS picks another stripe — the fresh probe index is an input — and loads
   again), or inside Value() (one load per stripe, summed with uint64 wrap-around).
   Ghost state: [started] — every Add call (thread, delta) at its invocation; [applied] — the
   same pair at the successful CAS; a scanning thread carries the stripes as they were when its
   scan began.  No proofs here. *)
From Otter Require Import Base.

Inductive athread :=
| TIdle
| TLoad (d : Z) (i : nat)                     (* Add(d): about to load stripe i *)
| TCas (d : Z) (i : nat) (c : Z)              (* loaded c from stripe i, about to CAS c -> c + d *)
| TDone (d : Z)                               (* Add(d) has returned *)
| TScan (i : nat) (acc : Z) (start : list Z)  (* Value(): about to load stripe i; ghost: stripes at the start *)
| TVal (v : Z) (start : list Z).              (* Value() returned v *)

Inductive ainp :=
| IAdd (d : Z) (i : nat)        (* invoke Add(d); i = the token's probe index *)
| IScan                         (* invoke Value() *)
| IGo (fresh : nat).            (* one atomic step; fresh = the probe index drawn after a failed CAS *)

Record adder := mkAdder {
  cells : list Z;
  aths : list athread;
  started : list (nat * Z);
  applied : list (nat * Z)
}.

Definition adder_init (nstripes nthreads : nat) : adder :=
  mkAdder (repeat 0 nstripes) (repeat TIdle nthreads) [] [].

Definition set_th (a : adder) (t : nat) (x : athread) : adder :=
  mkAdder (cells a) (upd t x (aths a)) (started a) (applied a).

Definition is_running (x : athread) : bool :=
  match x with TLoad _ _ | TCas _ _ _ | TScan _ _ _ => true | _ => false end.

Definition astep (a : adder) (inp : nat * ainp) : adder :=
  let (t, x) := inp in
  if negb (t <? length (aths a))%nat then a else
  let n := length (cells a) in
  let th := nth t (aths a) TIdle in
  match x with
  | IAdd d i =>
      if is_running th then a
      else mkAdder (cells a) (upd t (TLoad d (i mod n)%nat) (aths a)) (started a ++ [(t, d)]) (applied a)
  | IScan =>
      if is_running th then a else set_th a t (TScan 0 0 (cells a))
  | IGo fresh =>
      match th with
      | TLoad d i => set_th a t (TCas d i (nth i (cells a) 0))
      | TCas d i c =>
          if nth i (cells a) 0 =? c
          then mkAdder (upd i (wrapu (c + d)) (cells a)) (upd t (TDone d) (aths a)) (started a) (applied a ++ [(t, d)])
          else set_th a t (TLoad d (fresh mod n)%nat)
      | TScan i acc st =>
          if (i <? n)%nat then set_th a t (TScan (S i) (wrapu (acc + nth i (cells a) 0)) st)
          else set_th a t (TVal acc st)
      | _ => a
      end
  end.

Definition arun (sch : list (nat * ainp)) (a : adder) : adder := fold_left astep sch a.

Definition deltas (l : list (nat * Z)) : list Z := map snd l.

(* the Adds in flight: invoked, CAS not yet won *)
Definition pending_delta (x : athread) : Z :=
  match x with TLoad d _ | TCas d _ _ => d | _ => 0 end.
Definition pending_one (x : athread) : Z :=
  match x with TLoad _ _ | TCas _ _ _ => 1 | _ => 0 end.
Definition pending_sum (l : list athread) : Z := sumZ (map pending_delta l).
Definition pending_cnt (l : list athread) : Z := sumZ (map pending_one l).

Definition quiescent (a : adder) : Prop := forall x, In x (aths a) -> is_running x = false.
