(* util.ml — hand-written glue shared by the replayers: conversion between decimal text /
   zarith integers and the extracted inductive Z, trace reading, mismatch reporting. *)
module M = Model

let rec pos_of_z (n : Z.t) : M.positive =
  if Z.equal n Z.one then M.XH
  else if Z.is_even n then M.XO (pos_of_z (Z.shift_right n 1))
  else M.XI (pos_of_z (Z.shift_right n 1))

let mz_of_z (n : Z.t) : M.z =
  let s = Z.sign n in
  if s = 0 then M.Z0 else if s > 0 then M.Zpos (pos_of_z n) else M.Zneg (pos_of_z (Z.neg n))

let rec z_of_pos (p : M.positive) : Z.t =
  match p with
  | M.XH -> Z.one
  | M.XO q -> Z.shift_left (z_of_pos q) 1
  | M.XI q -> Z.succ (Z.shift_left (z_of_pos q) 1)

let z_of_mz (x : M.z) : Z.t =
  match x with M.Z0 -> Z.zero | M.Zpos p -> z_of_pos p | M.Zneg p -> Z.neg (z_of_pos p)

let mz_of_string (s : string) : M.z = if s = "0" then M.Z0 else mz_of_z (Z.of_string s)
let string_of_mz (x : M.z) : string = Z.to_string (z_of_mz x)
let mz_of_int (n : int) : M.z = mz_of_z (Z.of_int n)
let int_of_mz (x : M.z) : int = Z.to_int (z_of_mz x)

let rec nat_of_int (n : int) : M.nat = if n <= 0 then M.O else M.S (nat_of_int (n - 1))
let rec int_of_nat (n : M.nat) : int = match n with M.O -> 0 | M.S m -> 1 + int_of_nat m

let mismatches = ref 0
let max_report = 40
let mismatch engine lineno fmt =
  Printf.ksprintf (fun s ->
      incr mismatches;
      if !mismatches <= max_report then Printf.printf "MISMATCH engine=%s line=%d %s\n" engine lineno s) fmt

let propfails = ref 0
let propfail prop sigv lineno fmt =
  Printf.ksprintf (fun s ->
      incr propfails;
      if !propfails <= max_report then Printf.printf "PROPFAIL property=%s sig=%s line=%d %s\n" prop sigv lineno s) fmt

let stats : (string, int) Hashtbl.t = Hashtbl.create 16
let count k = Hashtbl.replace stats k (1 + (try Hashtbl.find stats k with Not_found -> 0))
let countn k n = Hashtbl.replace stats k (n + (try Hashtbl.find stats k with Not_found -> 0))

let print_stats () =
  let items = Hashtbl.fold (fun k v acc -> (k, v) :: acc) stats [] in
  let items = List.sort compare items in
  Printf.printf "STATS {%s}\n"
    (String.concat ", " (List.map (fun (k, v) -> Printf.sprintf "\"%s\": %d" k v) items))

let iter_lines (path : string) (f : int -> string list -> unit) : unit =
  let ic = open_in path in
  let n = ref 0 in
  (try
     while true do
       let l = input_line ic in
       incr n;
       if l <> "" then f !n (String.split_on_char ' ' l)
     done
   with End_of_file -> ());
  close_in ic

let rec list_eq eq a b =
  match a, b with
  | [], [] -> true
  | x :: a', y :: b' -> eq x y && list_eq eq a' b'
  | _ -> false
