(* Mpsc.v — executable model of internal/deque/queue/mpsc.go (multi-producer single-consumer
   chunked queue, JCTools MpscChunkedArrayQueue lineage).

   Indices advance by 2 (the low bit of producerIndex marks a resize in progress).  A buffer of
   length L holds L-1 element slots and one link slot (the last); masks are (L-2)<<1.  The model is
   sequentially executable; a push is split into [push_reserve] (everything up to and including the
   winning producerIndex CAS) and [push_publish] (the slot store), so that a producer parked
   between the two — the window in which the consumer must wait rather than report "empty" — is a
   model state.  No proofs here. *)
From Otter Require Import Base Sketch.

Inductive slot := SNil | SElem (v : Z) | SJump | SNext (b : nat).

Record mpsc := mkMpsc {
  pidx : Z; plimit : Z; cidx : Z;
  pmask : Z; cmask : Z;
  pbuf : nat; cbuf : nat;                 (* buffer ids *)
  bufs : list (list slot);                (* id -> slots *)
  maxcap : Z                              (* maxQueueCapacity = 2 * rounded max capacity *)
}.

(* NewMPSC(initialCapacity >= 2, maxCapacity >= 4), rounded up to powers of two *)
Definition mpsc_new (initial maximum : Z) : mpsc :=
  let p2i := roundup32 initial in
  let p2m := roundup32 maximum in
  let mask := Z.shiftl (p2i - 1) 1 in
  mkMpsc 0 mask 0 mask mask 0%nat 0%nat [repeat SNil (Z.to_nat (p2i + 1))] (Z.shiftl p2m 1).

Definition offset_of (index mask : Z) : nat := Z.to_nat (Z.shiftr (Z.land index mask) 1).
Definition next_array_offset (mask : Z) : nat := Z.to_nat (Z.shiftr (mask + 2) 1).

Definition buf_get (q : mpsc) (b : nat) (i : nat) : slot := nth i (nth b (bufs q) []) SNil.
Definition buf_set (q : mpsc) (b : nat) (i : nat) (s : slot) : list (list slot) :=
  upd b (upd i s (nth b (bufs q) [])) (bufs q).
Definition buf_len (q : mpsc) (b : nat) : Z := Z.of_nat (length (nth b (bufs q) [])).

Definition with_bufs (q : mpsc) (bs : list (list slot)) : mpsc :=
  mkMpsc (pidx q) (plimit q) (cidx q) (pmask q) (cmask q) (pbuf q) (cbuf q) bs (maxcap q).

(* getCurrentBufferCapacity *)
Definition cur_buf_capacity (q : mpsc) (mask : Z) : Z := if mask + 2 =? maxcap q then maxcap q else mask.

(* what the reserving part of TryPush decided *)
Inductive reserve :=
| RFull                           (* offer refused: the queue holds its maximum *)
| RSlot (b : nat) (off : nat)     (* index won; the element still has to be stored at buffer b, offset off *)
| RResized.                       (* the pusher grew the queue and stored the element itself *)

(* TryPush up to the winning CAS (single-threaded: no CAS can fail); [v] is needed by resize *)
Definition push_reserve (q : mpsc) (v : Z) : mpsc * reserve :=
  let p := pidx q in
  let mask := pmask q in
  let buffer := pbuf q in
  let claim (q : mpsc) :=
    (mkMpsc (p + 2) (plimit q) (cidx q) (pmask q) (cmask q) (pbuf q) (cbuf q) (bufs q) (maxcap q),
     RSlot buffer (offset_of p mask)) in
  if plimit q <=? p then
    (* pushSlowPath *)
    let c := cidx q in
    let cap := cur_buf_capacity q mask in
    if c + cap >? p then
      claim (mkMpsc (pidx q) (c + cap) (cidx q) (pmask q) (cmask q) (pbuf q) (cbuf q) (bufs q) (maxcap q))
    else if maxcap q - (p - c) <=? 0 then (q, RFull)
    else
      (* resize *)
      let newlen := 2 * (buf_len q buffer - 1) + 1 in
      let newid := length (bufs q) in
      let newmask := Z.shiftl (newlen - 2) 1 in
      let newbuf := upd (offset_of p newmask) (SElem v) (repeat SNil (Z.to_nat newlen)) in
      let bs := bufs q ++ [newbuf] in
      let q1 := mkMpsc (pidx q) (plimit q) (cidx q) newmask (cmask q) newid (cbuf q) bs (maxcap q) in
      let bs1 := buf_set q1 buffer (next_array_offset mask) (SNext newid) in
      let avail := maxcap q - (p - c) in
      let bs2 := buf_set (with_bufs q1 bs1) buffer (offset_of p mask) SJump in
      (mkMpsc (p + 2) (p + Z.min newmask avail) (cidx q) newmask (cmask q) newid (cbuf q) bs2 (maxcap q), RResized)
  else claim q.

Definition push_publish (q : mpsc) (b off : nat) (v : Z) : mpsc := with_bufs q (buf_set q b off (SElem v)).

(* a whole TryPush *)
Definition try_push (q : mpsc) (v : Z) : mpsc * bool :=
  match push_reserve q v with
  | (q1, RFull) => (q1, false)
  | (q1, RSlot b off) => (push_publish q1 b off v, true)
  | (q1, RResized) => (q1, true)
  end.

(* TryPop *)
Inductive popres := PopEmpty | PopElem (v : Z) | PopWait | PopBroken.

Definition try_pop (q : mpsc) : mpsc * popres :=
  let b := cbuf q in
  let index := cidx q in
  let mask := cmask q in
  let off := offset_of index mask in
  match buf_get q b off with
  | SNil => if index =? pidx q then (q, PopEmpty) else (q, PopWait)     (* reserved, not yet published: spin *)
  | SJump =>
      match buf_get q b (next_array_offset mask) with
      | SNext nb =>
          let bs1 := buf_set q b (next_array_offset mask) SNil in
          let q1 := with_bufs q bs1 in
          let nmask := Z.shiftl (buf_len q1 nb - 2) 1 in
          let noff := offset_of index nmask in
          match buf_get q1 nb noff with
          | SElem v =>
              (mkMpsc (pidx q1) (plimit q1) (index + 2) (pmask q1) nmask (pbuf q1) nb (buf_set q1 nb noff SNil) (maxcap q1),
               PopElem v)
          | _ => (q1, PopBroken)
          end
      | _ => (q, PopBroken)
      end
  | SElem v =>
      (mkMpsc (pidx q) (plimit q) (index + 2) (pmask q) (cmask q) (pbuf q) (cbuf q) (buf_set q b off SNil) (maxcap q),
       PopElem v)
  | SNext _ => (q, PopBroken)
  end.

Definition mpsc_size (q : mpsc) : Z := Z.shiftr (pidx q - cidx q) 1.
Definition mpsc_capacity (q : mpsc) : Z := maxcap q / 2.
