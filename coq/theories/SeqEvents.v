(* SeqEvents.v — C06 on the concrete model: a deletion event is emitted exactly when a node
   object leaves the table, carrying that node's key and value and the right cause; nothing is
   reported for nodes that stay.  Counting form: entries + events = previous entries + installs. *)
From Otter Require Import Base Seq Spec SeqRefine.
From Coq Require Import ZifyBool.
Local Open Scope Z_scope.

Section Ev.
Variable c : cfg.

(* the event for the node (if any) that an index action drops *)
Definition ev_of (k : Z) (o : option node) (now : Z) (dflt : cause) : list event :=
  match o with
  | Some old => [mkEvent k (nval old) (get_cause c old now dflt)]
  | None => []
  end.

(* what one index action on key k does to the table, the events it emits, and how many node
   objects it installs *)
Inductive ktrans (now k : Z) (m m' : kmap) (evs : list event) : nat -> Prop :=
| KSame : m' = m -> evs = [] -> ktrans now k m m' evs 0
| KMutate f : m' = mutate k f m -> (forall n, lookup k m = Some n -> nval (f n) = nval n) -> evs = [] -> ktrans now k m m' evs 0
| KPut n : m' = put k n m -> evs = ev_of k (lookup k m) now CReplacement -> ktrans now k m m' evs 1
| KDel : m' = remove k m -> evs = ev_of k (lookup k m) now CInvalidation -> ktrans now k m m' evs 0.

Lemma atomic_set_events k v old cl now : snd (atomic_set c k v old cl now) = ev_of k old now CReplacement.
Proof. unfold atomic_set, ev_of. destruct old; reflexivity. Qed.

Lemma atomic_delete_events k old now : atomic_delete c k old now = ev_of k old now CInvalidation.
Proof. unfold atomic_delete, ev_of. destruct old; reflexivity. Qed.

Lemma do_set_trans s k v oia now :
  exists ni, ktrans now k (cmap s) (cmap (fst (do_set c s k v oia now))) (r_events (snd (do_set c s k v oia now))) ni.
Proof.
  unfold do_set.
  destruct (oia && match lookup k (cmap s) with Some o => negb (has_expired c o now) | None => false end) eqn:E.
  - destruct (lookup k (cmap s)) as [o|] eqn:L.
    + exists 0%nat. eapply KMutate; cbn [fst snd cmap upd_map r_events res0]; [reflexivity| |reflexivity].
      intros n Ln. rewrite L in Ln. injection Ln as <-. apply (calc_exp_read_fields c k o now).
    + exists 0%nat. apply KSame; reflexivity.
  - pose proof (atomic_set_events k v (lookup k (cmap s)) NoCall now) as Ev.
    destruct (atomic_set c k v (lookup k (cmap s)) NoCall now) as [n evs]. cbn [snd] in Ev.
    exists 1%nat. eapply KPut; cbn [fst snd cmap upd_map r_events]; [reflexivity|assumption].
Qed.

Lemma do_invalidate_trans s k now :
  ktrans now k (cmap s) (cmap (fst (do_invalidate c s k now))) (r_events (snd (do_invalidate c s k now))) 0.
Proof.
  unfold do_invalidate. apply KDel; cbn [fst snd cmap upd_map r_events]; [reflexivity|apply atomic_delete_events].
Qed.

Lemma do_compute_trans s k f now rs :
  exists ni, ktrans now k (cmap s) (cmap (fst (do_compute c s k f now rs))) (r_events (snd (do_compute c s k f now rs))) ni.
Proof.
  unfold do_compute.
  destruct (f _ _) as [|v []].
  - exists 0%nat. apply KSame; reflexivity.
  - destruct (lookup k (cmap s)) as [o|] eqn:L.
    + destruct (has_expired c o now) eqn:X.
      * exists 0%nat. apply KDel; [destruct rs; reflexivity|]. cbn [snd r_events]. rewrite <- L. apply atomic_delete_events.
      * exists 0%nat. apply KSame; [destruct rs; reflexivity|reflexivity].
    + exists 0%nat. apply KSame; [destruct rs; reflexivity|reflexivity].
  - pose proof (atomic_set_events k v (lookup k (cmap s)) NoCall now) as Ev.
    destruct (atomic_set c k v (lookup k (cmap s)) NoCall now) as [n evs]. cbn [snd] in Ev.
    exists 1%nat. eapply KPut; [destruct rs; reflexivity|]. cbn [snd r_events]. assumption.
  - exists 0%nat. apply KDel; [destruct rs; reflexivity|]. cbn [snd r_events]. apply atomic_delete_events.
  - exists 0%nat. apply KSame; reflexivity.
Qed.

Lemma finish_call_trans s k oc ir now :
  exists ni, ktrans now k (cmap s) (cmap (fst (finish_call c s k oc ir now))) (snd (finish_call c s k oc ir now)) ni.
Proof.
  unfold finish_call. destruct oc as [v|v| |].
  - pose proof (atomic_set_events k v (lookup k (cmap s)) (Call ir false false) now) as Ev.
    destruct (atomic_set c k v (lookup k (cmap s)) (Call ir false false) now) as [n evs]. cbn [snd] in Ev.
    exists 1%nat. eapply KPut; [reflexivity|assumption].
  - destruct (lookup k (cmap s)) as [o|]; [destruct ir|].
    + exists 0%nat. eapply KMutate; [reflexivity| |reflexivity]. intros n _.
      unfold calc_refr. destruct (negb (with_refr c)); [reflexivity|].
      repeat match goal with |- context [match ?x with _ => _ end] => destruct x end; reflexivity.
    + exists 0%nat. apply KSame; reflexivity.
    + exists 0%nat. apply KSame; reflexivity.
  - exists 0%nat. apply KDel; [reflexivity|apply atomic_delete_events].
  - destruct (lookup k (cmap s)) as [o|]; [destruct ir|].
    + exists 0%nat. eapply KMutate; [reflexivity| |reflexivity]. intros n _.
      unfold calc_refr. destruct (negb (with_refr c)); [reflexivity|].
      repeat match goal with |- context [match ?x with _ => _ end] => destruct x end; reflexivity.
    + exists 0%nat. apply KSame; reflexivity.
    + exists 0%nat. apply KSame; reflexivity.
Qed.

(* an accepted automatic removal drops exactly the reported node and reports it with the given cause *)
Lemma do_auto_trans s k v cs now :
  r_ret (snd (do_auto c s k v cs now)) = RNone ->
  exists n, lookup k (cmap s) = Some n /\ nval n = v /\
            cmap (fst (do_auto c s k v cs now)) = remove k (cmap s) /\
            r_events (snd (do_auto c s k v cs now)) = [mkEvent k v cs].
Proof.
  unfold do_auto. destruct (lookup k (cmap s)) as [n|]; [|intros H; discriminate H].
  destruct ((nval n =? v) && _) eqn:E; [|intros H; discriminate H].
  intros _. exists n. apply andb_true_iff in E. destruct E as [E _]. repeat split; try reflexivity. lia.
Qed.

(* ---- counting form *)

Lemma length_remove k m : NoDup (map fst m) ->
  length (remove k m) = (length m - (match lookup k m with Some _ => 1 | None => 0 end))%nat.
Proof.
  induction m as [|[k' n] m IH]; cbn [remove filter lookup map fst length]; intros Hnd; [reflexivity|].
  inversion Hnd as [|? ? Hn Hd]; subst. fold (remove k m).
  destruct (k' =? k) eqn:E; cbn [negb length].
  - apply Z.eqb_eq in E. subst k'. rewrite remove_notin by assumption. lia.
  - rewrite IH by assumption. destruct (lookup k m) eqn:L; [|lia].
    assert (0 < length m)%nat by (destruct m; [discriminate|cbn; lia]). lia.
Qed.

Lemma length_mutate k f m : length (mutate k f m) = length m.
Proof. unfold mutate. apply map_length. Qed.

(* entries afterwards + events = entries before + installs *)
Theorem ktrans_conservation now k m m' evs ni :
  NoDup (map fst m) -> ktrans now k m m' evs ni ->
  (length m' + length evs = length m + ni)%nat.
Proof.
  intros Hnd T. destruct T as [-> ->|f -> _ ->|n -> ->| -> ->].
  - cbn. lia.
  - rewrite length_mutate. cbn. lia.
  - unfold put. cbn [length]. rewrite length_remove by assumption. unfold ev_of.
    destruct (lookup k m) eqn:L; cbn [length]; [|lia].
    assert (0 < length m)%nat by (destruct m; [discriminate|cbn; lia]). lia.
  - rewrite length_remove by assumption. unfold ev_of.
    destruct (lookup k m) eqn:L; cbn [length]; [|lia].
    assert (0 < length m)%nat by (destruct m; [discriminate|cbn; lia]). lia.
Qed.

(* the cause is Expiration exactly when the dropped node's deadline had passed at the action's
   clock, otherwise the action's own cause *)
Theorem event_cause k old now dflt e :
  In e (ev_of k (Some old) now dflt) ->
  ekey e = k /\ evalue e = nval old /\
  (has_expired c old now = true -> ecause e = CExpiration) /\
  (has_expired c old now = false -> ecause e = dflt).
Proof.
  intros [<-|[]]. unfold get_cause. cbn. repeat split; intros H; rewrite H; reflexivity.
Qed.

(* InvalidateAll reports every node exactly once *)
Lemma invalidate_all_events s now :
  length (r_events (snd (do_invalidate_all c s now))) = length (cmap s) /\ cmap (fst (do_invalidate_all c s now)) = [].
Proof. unfold do_invalidate_all. cbn. rewrite map_length. auto. Qed.

End Ev.
