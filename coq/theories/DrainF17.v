(* DrainF17.v — the drain-status model is sensitive to the defect found in the code (F17, and F14 before it):
   the same model in which an InvalidateAll caller does NOT look at the status again after unlocking — what
   cache_impl.go did before /repo 34d1eba — reaches a configuration in which nothing can move although a
   write is still buffered and the status is "required".  The variant differs from Drain.dstep in one
   transition: a thread that started as an InvalidateAll caller (marked by its argument 7, which none of
   its steps changes) ends at its Unlock. *)
From stdpp Require Import gmap.
From Coq Require Import List.
Import ListNotations.
From Otter Require Import Drain.

Definition dstep_f17 (s : dstate) (i : nat) : option dstate :=
  match nth_error (ths_of s) i with
  | Some (MUnlock, 7) => Some (mk (ds_of s) false (wb_of s) (set_nth i (Done, 7) (ths_of s)))
  | _ => dstep s i
  end.

Fixpoint run_f17 (s : dstate) (sched : list nat) : dstate :=
  match sched with
  | [] => s
  | i :: rest => match dstep_f17 s i with Some s' => run_f17 s' rest | None => run_f17 s rest end
  end.

Definition terminal_f17 (s : dstate) : bool :=
  forallb (fun i => match dstep_f17 s i with None => true | Some _ => false end) (seq 0 (length (ths_of s))).

(* one InvalidateAll caller (thread 0) and one writer (thread 1): InvalidateAll takes the lock and finds the
   write buffer empty; the writer records its event, marks the status required and gives up at TryLock;
   InvalidateAll unlocks and returns *)
Definition f17_init : dstate := mk 0 false 0 [(ILock, 7); (WPush, 0)].
Definition f17_sched : list nat := [0; 0; 1; 1; 1; 1; 1; 0].

Theorem f17_strands_without_the_reschedule :
  let s := run_f17 f17_init f17_sched in
  terminal_f17 s = true /\ all_done s = true /\ drained s = false /\ ds_of s = 1 /\ wb_of s = 1.
Proof. vm_compute. repeat split; reflexivity. Qed.

(* with the reschedule (the model as it is) the same schedule leaves the InvalidateAll caller at
   rescheduleCleanUpIfIncomplete, from where it schedules the maintenance the writer could not start *)
Example f17_same_schedule_with_the_reschedule :
  let s := fold_left (fun s i => match dstep s i with Some s' => s' | None => s end) f17_sched f17_init in
  nth_error (ths_of s) 0 = Some (RLoad, 7) /\ ds_of s = 1 /\ lock_of s = false.
Proof. vm_compute. repeat split; reflexivity. Qed.
