(* LoadProofs.v — invariants of the single-flight protocol for every event sequence (C08, C09). *)
From Otter Require Import Base Load.
From Coq Require Import ZifyBool.
Local Open Scope Z_scope.

Definition pending (c : lcall) : Prop := cdone c = None.

Record linv (s : lstate) : Prop := mkLinv {
  (* ids are fresh and distinct *)
  v_ids : forall c, In c (lcalls s) -> cid c < lnext s;
  v_distinct : forall c1 c2, In c1 (lcalls s) -> In c2 (lcalls s) -> cid c1 = cid c2 -> c1 = c2;
  (* the calls table is a function and holds exactly the pending, unsuperseded calls *)
  v_table_fun : NoDup (map fst (ltable s));
  v_table_sound : forall k id, alookup k (ltable s) = Some id ->
                  exists c, In c (lcalls s) /\ cid c = id /\ ckey c = k /\ pending c /\ csuperseded c = false;
  v_table_complete : forall c, In c (lcalls s) -> pending c -> csuperseded c = false ->
                     alookup (ckey c) (ltable s) = Some (cid c);
  (* C09: a superseded call never installs; an installed call is finished *)
  v_no_stale_install : forall c, In c (lcalls s) -> cinstalled c = true -> csuperseded c = false /\ cdone c <> None;
  (* every waiter waits for a pending call *)
  v_waiters : forall t id, In (t, id) (lwaits s) -> exists c, In c (lcalls s) /\ cid c = id /\ pending c
}.

(* ---- association-list facts *)
Lemma alookup_aremove_same k m : alookup k (aremove k m) = None.
Proof. induction m as [|[k' v] m IH]; simpl; [reflexivity|]. destruct (k' =? k) eqn:E; simpl; [assumption|]. rewrite E. assumption. Qed.

Lemma alookup_aremove_other k k' m : k <> k' -> alookup k' (aremove k m) = alookup k' m.
Proof.
  intros Hne. induction m as [|[k2 v] m IH]; simpl; [reflexivity|].
  destruct (k2 =? k) eqn:E; simpl.
  - apply Z.eqb_eq in E. subst. replace (k =? k') with false by lia. assumption.
  - destruct (k2 =? k'); [reflexivity|assumption].
Qed.

Lemma keys_aremove k m x : In x (map fst (aremove k m)) -> In x (map fst m) /\ x <> k.
Proof.
  intros H. apply in_map_iff in H. destruct H as (p & <- & Hp). unfold aremove in Hp. apply filter_In in Hp.
  destruct Hp as [Hp Hk]. split; [apply in_map; assumption|lia].
Qed.

Lemma NoDup_aremove k m : NoDup (map fst m) -> NoDup (map fst (aremove k m)).
Proof.
  induction m as [|[k' v] m IH]; simpl; intros H; [constructor|].
  inversion H as [|? ? Hn Hd]; subst. destruct (k' =? k); simpl; [apply IH; assumption|].
  constructor; [|apply IH; assumption]. intros Hin. apply keys_aremove in Hin. tauto.
Qed.

Lemma NoDup_aput k v m : NoDup (map fst m) -> NoDup (map fst (aput k v m)).
Proof.
  intros H. unfold aput. simpl. constructor; [|apply NoDup_aremove; assumption].
  intros Hin. apply keys_aremove in Hin. tauto.
Qed.

Lemma alookup_aput k v m k' : alookup k' (aput k v m) = if k =? k' then Some v else alookup k' m.
Proof.
  unfold aput. simpl. destruct (k =? k') eqn:E; [reflexivity|]. apply alookup_aremove_other. lia.
Qed.

Lemma in_upd_call cs id f c : In c (upd_call cs id f) -> exists c0, In c0 cs /\ c = (if cid c0 =? id then f c0 else c0).
Proof. unfold upd_call. intros H. apply in_map_iff in H. destruct H as (c0 & <- & H). eauto. Qed.

Lemma in_upd_call_intro cs id f c0 : In c0 cs -> In (if cid c0 =? id then f c0 else c0) (upd_call cs id f).
Proof. intros H. unfold upd_call. apply in_map_iff. eauto. Qed.

Lemma linv_init : linv lstate0.
Proof. constructor; simpl; try (intros; contradiction); try (intros; discriminate). constructor. Qed.

(* superseding a key's call preserves the invariant and leaves no registered call for the key *)
Lemma supersede_inv s k : linv s -> linv (supersede s k) /\ alookup k (ltable (supersede s k)) = None /\ lmap (supersede s k) = lmap s.
Proof.
  intros I. unfold supersede. destruct (alookup k (ltable s)) as [id|] eqn:L; [|auto].
  destruct I as [Ids Dis Tf Ts Tc Ni Wt].
  destruct (Ts k id L) as (c0 & Hc0 & Hid & Hk & Hp & Hs).
  set (f := fun c : lcall => mkCall (cid c) (ckey c) (crefresh c) (cdone c) true (cinstalled c)).
  assert (Fid : forall c, cid (f c) = cid c) by reflexivity.
  assert (Hin : forall c, In c (upd_call (lcalls s) id f) -> exists c1, In c1 (lcalls s) /\ cid c = cid c1 /\ ckey c = ckey c1 /\ cdone c = cdone c1 /\
                        cinstalled c = cinstalled c1 /\ (csuperseded c = false -> csuperseded c1 = false /\ cid c1 <> id)).
  { intros c Hc. apply in_upd_call in Hc. destruct Hc as (c1 & H1 & ->). exists c1. split; [assumption|].
    destruct (cid c1 =? id) eqn:E; cbn; repeat split; try reflexivity; try (intros H; discriminate H); try (intros H; assumption); lia. }
  split; [|split; [apply alookup_aremove_same|reflexivity]].
  constructor; cbn [lcalls ltable lnext lwaits lmap].
  - intros c Hc. destruct (Hin c Hc) as (c1 & H1 & E & _). rewrite E. apply Ids. assumption.
  - intros c1 c2 H1 H2 E. apply in_upd_call in H1. apply in_upd_call in H2.
    destruct H1 as (a & Ha & ->). destruct H2 as (b & Hb & ->).
    assert (cid a = cid b) by (destruct (cid a =? id); destruct (cid b =? id); cbn in E; assumption).
    rewrite (Dis a b Ha Hb H). reflexivity.
  - apply NoDup_aremove. assumption.
  - intros k' id' L'. destruct (Z.eq_dec k k') as [->|Hne]; [rewrite alookup_aremove_same in L'; discriminate|].
    rewrite alookup_aremove_other in L' by assumption.
    destruct (Ts k' id' L') as (c1 & H1 & E1 & K1 & P1 & S1).
    exists c1. assert (cid c1 <> id).
    { intros E. assert (c1 = c0) by (apply Dis; congruence). subst c1. congruence. }
    split; [|auto]. pose proof (in_upd_call_intro (lcalls s) id f c1 H1) as Hi.
    replace (cid c1 =? id) with false in Hi by lia. assumption.
  - intros c Hc Hp' Hs'. destruct (Hin c Hc) as (c1 & H1 & E & K & D & _ & S).
    destruct (S Hs') as [S1 Hne]. rewrite K, E.
    assert (ckey c1 <> k).
    { intros Ek. pose proof (Tc c1 H1 ltac:(unfold pending in *; congruence) S1) as L1. rewrite Ek, L in L1. congruence. }
    rewrite alookup_aremove_other by congruence. apply Tc; [assumption|unfold pending in *; congruence|assumption].
  - intros c Hc Hinst. apply in_upd_call in Hc. destruct Hc as (c1 & H1 & ->).
    destruct (cid c1 =? id) eqn:E.
    + cbn in Hinst. exfalso. assert (c1 = c0) by (apply Dis; try assumption; lia). subst c1.
      destruct (Ni c0 Hc0 Hinst) as [_ Hd]. unfold pending in Hp. congruence.
    + apply Ni; assumption.
  - intros t id' Hw. destruct (Wt t id' Hw) as (c1 & H1 & E1 & P1).
    exists (if cid c1 =? id then f c1 else c1). split; [apply in_upd_call_intro; assumption|].
    destruct (cid c1 =? id); cbn; auto.
Qed.

Lemma linv_set_map s m' : linv s -> linv (mkL m' (ltable s) (lcalls s) (lnext s) (lwaits s)).
Proof. intros [Ids Dis Tf Ts Tc Ni Wt]. constructor; assumption. Qed.

Lemma find_call cs id c : find (fun c => cid c =? id) cs = Some c -> In c cs /\ cid c = id.
Proof. intros H. apply find_some in H. destruct H as [H1 H2]. split; [assumption|lia]. Qed.

Theorem lstep_inv s e : linv s -> linv (fst (lstep s e)).
Proof.
  intros I. destruct e as [t k refresh|id oc|k v|k|k v]; cbn [lstep].
  - (* LStart *)
    pose proof I as I0. destruct I as [Ids Dis Tf Ts Tc Ni Wt].
    destruct (alookup k (ltable s)) as [id|] eqn:L; cbn [fst].
    + (* join *)
      constructor; cbn [lcalls ltable lnext lwaits lmap]; try assumption.
      intros t' id' [E|Hw]; [|apply Wt with t'; assumption].
      injection E as <- <-. destruct (Ts k id L) as (c & Hc & E1 & _ & P & _). eauto.
    + (* new call *)
      set (c0 := mkCall (lnext s) k refresh None false false).
      constructor; cbn [lcalls ltable lnext lwaits lmap].
      * intros c [<-|Hc]; [cbn; lia|]. specialize (Ids c Hc). lia.
      * intros c1 c2 [<-|H1] [<-|H2] E; try reflexivity.
        -- specialize (Ids c2 H2). cbn in E. lia.
        -- specialize (Ids c1 H1). cbn in E. lia.
        -- apply Dis; assumption.
      * apply NoDup_aput. assumption.
      * intros k' id' L'. rewrite alookup_aput in L'. destruct (k =? k') eqn:E.
        -- injection L' as <-. exists c0. apply Z.eqb_eq in E. subst k'. repeat split; try reflexivity. left; reflexivity.
        -- destruct (Ts k' id' L') as (c & Hc & H1 & H2 & H3 & H4). exists c. repeat split; try assumption. right; assumption.
      * intros c [<-|Hc] Hp Hs.
        -- unfold c0; cbn [ckey cid]. rewrite alookup_aput. rewrite Z.eqb_refl. reflexivity.
        -- rewrite alookup_aput. destruct (k =? ckey c) eqn:E; [|apply Tc; assumption].
           apply Z.eqb_eq in E. pose proof (Tc c Hc Hp Hs) as L1. rewrite <- E, L in L1. discriminate.
      * intros c [<-|Hc] Hi; [cbn in Hi; discriminate|]. apply Ni; assumption.
      * intros t' id' [E|Hw].
        -- injection E as <- <-. exists c0. repeat split; try reflexivity. left; reflexivity.
        -- destruct (Wt t' id' Hw) as (c & Hc & H1 & H2). exists c. repeat split; try assumption. right; assumption.
  - (* LFinish *)
    destruct (find (fun c => cid c =? id) (lcalls s)) as [c|] eqn:F; [|assumption].
    destruct (find_call _ _ _ F) as [Hc Hid].
    destruct (cdone c) eqn:Dn; [assumption|].
    pose proof I as I0. destruct I as [Ids Dis Tf Ts Tc Ni Wt].
    set (k := ckey c) in *.
    set (correct := match alookup k (ltable s) with Some id' => id' =? id | None => false end).
    set (installed := match oc with OValue _ => correct | _ => false end).
    assert (Emap : exists m', (let '(map', inst) := match oc with
                      | OValue v => if correct then (aput k v (lmap s), true) else (lmap s, false)
                      | ONotFound => if correct then (aremove k (lmap s), false) else (lmap s, false)
                      | OError | OPanic => (lmap s, false) end in
                      (map', inst)) = (m', installed)).
    { unfold installed. destruct oc; destruct correct; eauto. }
    destruct Emap as (m' & Emap).
    destruct (match oc with
              | OValue v => if correct then (aput k v (lmap s), true) else (lmap s, false)
              | ONotFound => if correct then (aremove k (lmap s), false) else (lmap s, false)
              | OError | OPanic => (lmap s, false) end) as [mp ins] eqn:Em.
    injection Emap as -> ->. cbn [fst].
    set (f := fun c1 : lcall => mkCall (cid c1) (ckey c1) (crefresh c1) (Some oc) (csuperseded c1) installed).
    assert (Hupd : forall x, In x (upd_call (lcalls s) id f) ->
                   (x = f c) \/ (In x (lcalls s) /\ cid x <> id)).
    { intros x Hx. apply in_upd_call in Hx. destruct Hx as (c1 & H1 & ->).
      destruct (cid c1 =? id) eqn:E; [left|right; split; [assumption|lia]].
      assert (c1 = c) by (apply Dis; try assumption; lia). subst. reflexivity. }
    assert (Hcorrect : correct = true -> alookup k (ltable s) = Some id /\ csuperseded c = false).
    { unfold correct. destruct (alookup k (ltable s)) as [id'|] eqn:L; [|discriminate].
      intros E. apply Z.eqb_eq in E. subst id'. split; [reflexivity|].
      destruct (Ts k id L) as (c1 & H1 & E1 & _ & _ & S1).
      assert (c1 = c) by (apply Dis; congruence). subst. assumption. }
    constructor; cbn [lcalls ltable lnext lwaits lmap].
    + intros x Hx. destruct (Hupd x Hx) as [->|[H1 _]]; [cbn; apply Ids; assumption|apply Ids; assumption].
    + intros x y Hx Hy E. destruct (Hupd x Hx) as [->|[H1 N1]]; destruct (Hupd y Hy) as [->|[H2 N2]]; try reflexivity.
      * cbn in E. congruence.
      * cbn in E. congruence.
      * apply Dis; assumption.
    + destruct correct; [apply NoDup_aremove|]; assumption.
    + intros k' id' L'.
      assert (L0 : alookup k' (ltable s) = Some id' /\ id' <> id).
      { destruct correct eqn:Ec.
        - destruct (Hcorrect eq_refl) as [Lk _].
          destruct (Z.eq_dec k k') as [<-|Hne]; [rewrite alookup_aremove_same in L'; discriminate|].
          rewrite alookup_aremove_other in L' by assumption. split; [assumption|].
          intros ->. destruct (Ts k' id L') as (c1 & H1 & E1 & K1 & _).
          assert (c1 = c) by (apply Dis; congruence). subst c1. fold k in K1. congruence.
        - split; [assumption|]. intros ->. unfold correct in Ec.
          destruct (Ts k' id L') as (c1 & H1 & E1 & K1 & _).
          assert (c1 = c) by (apply Dis; congruence). subst c1. fold k in K1. subst k'.
          rewrite L' in Ec. rewrite Z.eqb_refl in Ec. discriminate. }
      destruct L0 as [L0 Hne]. destruct (Ts k' id' L0) as (c1 & H1 & E1 & K1 & P1 & S1).
      exists c1. split; [|auto].
      pose proof (in_upd_call_intro (lcalls s) id f c1 H1) as Hi.
      replace (cid c1 =? id) with false in Hi by lia. assumption.
    + intros x Hx Hp Hs. destruct (Hupd x Hx) as [->|[H1 N1]]; [cbn in Hp; discriminate|].
      pose proof (Tc x H1 Hp Hs) as L1.
      destruct correct eqn:Ec; [|assumption].
      destruct (Hcorrect eq_refl) as [Lk _].
      assert (ckey x <> k) by (intros Ek; rewrite Ek, Lk in L1; congruence).
      rewrite alookup_aremove_other by congruence. assumption.
    + intros x Hx Hi. destruct (Hupd x Hx) as [->|[H1 N1]]; [|apply Ni; assumption].
      cbn in Hi |- *. split; [|discriminate].
      unfold installed in Hi. destruct oc; try discriminate. apply Hcorrect. assumption.
    + intros t id' Hw. apply filter_In in Hw. destruct Hw as [Hw Hne].
      destruct (Wt t id' Hw) as (c1 & H1 & E1 & P1). exists c1. split; [|auto].
      pose proof (in_upd_call_intro (lcalls s) id f c1 H1) as Hi.
      cbn in Hne. replace (cid c1 =? id) with false in Hi by lia. assumption.
  - (* LWrite *)
    destruct (supersede_inv s k I) as (I1 & _ & _). cbn [fst]. apply (linv_set_map (supersede s k)). assumption.
  - (* LInvalidate *)
    destruct (supersede_inv s k I) as (I1 & _ & _). cbn [fst]. apply (linv_set_map (supersede s k)). assumption.
  - (* LVolunteer *)
    cbn [fst]. apply (linv_set_map s). assumption.
Qed.

Theorem lrun_inv es : forall s, linv s -> linv (fst (lrun s es)).
Proof.
  induction es as [|e es IH]; intros s I; cbn [lrun]; [assumption|].
  pose proof (lstep_inv s e I) as I1. destruct (lstep s e) as [s1 o]. cbn [fst] in I1.
  specialize (IH s1 I1). destruct (lrun s1 es) as [s2 os]. assumption.
Qed.

(* ---- consequences *)

(* C08: two loader intervals for one key never overlap unless the older call was superseded by a
   write / invalidation / eviction of the key *)
Theorem no_overlap s c1 c2 :
  linv s -> In c1 (lcalls s) -> In c2 (lcalls s) -> pending c1 -> pending c2 -> ckey c1 = ckey c2 -> c1 <> c2 ->
  csuperseded c1 = true \/ csuperseded c2 = true.
Proof.
  intros I H1 H2 P1 P2 K Hne.
  destruct (csuperseded c1) eqn:S1; [left; reflexivity|].
  destruct (csuperseded c2) eqn:S2; [right; reflexivity|].
  exfalso. apply Hne.
  pose proof (v_table_complete s I c1 H1 P1 S1) as L1.
  pose proof (v_table_complete s I c2 H2 P2 S2) as L2.
  rewrite K in L1. rewrite L1 in L2. injection L2 as E. apply (v_distinct s I); assumption.
Qed.

(* C08: when no load is in flight the calls table is empty *)
Theorem table_clean s : linv s -> (forall c, In c (lcalls s) -> ~ pending c) -> ltable s = [].
Proof.
  intros I H. destruct (ltable s) as [|[k id] tl] eqn:E; [reflexivity|].
  exfalso. assert (L : alookup k (ltable s) = Some id) by (rewrite E; simpl; rewrite Z.eqb_refl; reflexivity).
  destruct (v_table_sound s I k id L) as (c & Hc & _ & _ & P & _). apply (H c Hc P).
Qed.

(* C08: every waiter waits for a pending call, and the call's finish releases it *)
Theorem finish_releases s id oc t :
  linv s -> In (t, id) (lwaits s) ->
  match snd (lstep s (LFinish id oc)) with
  | ObsFinished _ released => In t released
  | _ => False
  end.
Proof.
  intros I Hw. destruct (v_waiters s I t id Hw) as (c & Hc & Hid & P).
  cbn [lstep].
  assert (F : find (fun c0 => cid c0 =? id) (lcalls s) = Some c).
  { destruct (find (fun c0 => cid c0 =? id) (lcalls s)) as [c'|] eqn:F.
    - destruct (find_call _ _ _ F) as [H1 H2]. f_equal. apply (v_distinct s I); congruence.
    - exfalso. apply (find_none _ _ F) in Hc. lia. }
  rewrite F. unfold pending in P. rewrite P.
  destruct (match oc with
            | OValue v => if match alookup (ckey c) (ltable s) with Some id' => id' =? id | None => false end then (aput (ckey c) v (lmap s), true) else (lmap s, false)
            | ONotFound => if match alookup (ckey c) (ltable s) with Some id' => id' =? id | None => false end then (aremove (ckey c) (lmap s), false) else (lmap s, false)
            | _ => (lmap s, false) end) as [mp ins].
  cbn [snd]. apply in_map_iff. exists (t, id). split; [reflexivity|].
  apply filter_In. split; [assumption|]. cbn. lia.
Qed.

(* C09: a load installs its value only if no write, invalidation or eviction of the key happened
   since the call was created; and such an event always leaves the explicit write in place *)
Theorem install_only_if_unsuperseded s c :
  linv s -> In c (lcalls s) -> cinstalled c = true -> csuperseded c = false.
Proof. intros I H Hi. apply (v_no_stale_install s I c H Hi). Qed.

Theorem superseded_finish_keeps_map s id oc c :
  linv s -> In c (lcalls s) -> cid c = id -> pending c -> csuperseded c = true ->
  lmap (fst (lstep s (LFinish id oc))) = lmap s.
Proof.
  intros I Hc Hid P S. cbn [lstep].
  assert (F : find (fun c0 => cid c0 =? id) (lcalls s) = Some c).
  { destruct (find (fun c0 => cid c0 =? id) (lcalls s)) as [c'|] eqn:F.
    - destruct (find_call _ _ _ F) as [H1 H2]. f_equal. apply (v_distinct s I); congruence.
    - exfalso. apply (find_none _ _ F) in Hc. lia. }
  rewrite F. unfold pending in P. rewrite P.
  assert (NC : match alookup (ckey c) (ltable s) with Some id' => id' =? id | None => false end = false).
  { destruct (alookup (ckey c) (ltable s)) as [id'|] eqn:L; [|reflexivity].
    destruct (v_table_sound s I _ _ L) as (c1 & H1 & E1 & _ & _ & S1).
    destruct (id' =? id) eqn:E; [|reflexivity]. apply Z.eqb_eq in E. subst id'.
    assert (c1 = c) by (apply (v_distinct s I); congruence). subst. congruence. }
  rewrite NC. destruct oc; reflexivity.
Qed.
