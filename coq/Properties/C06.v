(* C06 — Every removed value is reported exactly once with the right cause.
   On the concrete model every index action is one of: nothing / in-place deadline change (no
   event), install (event for the node it replaces, if any), removal (event for the node removed,
   if any). Hence: a value is reported exactly when its node leaves the table, values still present
   are never reported, and entries + events = previous entries + installs.
   The asynchronous handler (OnDeletion) receives the same (key, value, cause) through the write
   task; the harness checks OnDeletion = OnAtomicDeletion as multisets at quiescence (engine seq). *)
From Otter Require Import Base Seq Spec SeqRefine SeqEvents.

Theorem C06_set : forall c s k v oia now,
  exists ni, ktrans c now k (cmap s) (cmap (fst (do_set c s k v oia now))) (r_events (snd (do_set c s k v oia now))) ni.
Proof. exact do_set_trans. Qed.
Print Assumptions C06_set.

Theorem C06_compute : forall c s k f now rs,
  exists ni, ktrans c now k (cmap s) (cmap (fst (do_compute c s k f now rs))) (r_events (snd (do_compute c s k f now rs))) ni.
Proof. exact do_compute_trans. Qed.
Print Assumptions C06_compute.

Theorem C06_invalidate : forall c s k now,
  ktrans c now k (cmap s) (cmap (fst (do_invalidate c s k now))) (r_events (snd (do_invalidate c s k now))) 0.
Proof. exact do_invalidate_trans. Qed.
Print Assumptions C06_invalidate.

(* load / reload completion (Get, Refresh, each key of the bulk variants) *)
Theorem C06_load_completion : forall c s k oc ir now,
  exists ni, ktrans c now k (cmap s) (cmap (fst (finish_call c s k oc ir now))) (snd (finish_call c s k oc ir now)) ni.
Proof. exact finish_call_trans. Qed.
Print Assumptions C06_load_completion.

(* eviction / expiration: exactly the reported node leaves, with the reported cause *)
Theorem C06_automatic_removal : forall c s k v cs now,
  r_ret (snd (do_auto c s k v cs now)) = RNone ->
  exists n, lookup k (cmap s) = Some n /\ nval n = v /\
            cmap (fst (do_auto c s k v cs now)) = remove k (cmap s) /\
            r_events (snd (do_auto c s k v cs now)) = [mkEvent k v cs].
Proof. exact do_auto_trans. Qed.
Print Assumptions C06_automatic_removal.

(* values written = values present + values reported, per index action *)
Theorem C06_conservation : forall c now k m m' evs ni,
  NoDup (map fst m) -> ktrans c now k m m' evs ni -> (length m' + length evs = length m + ni)%nat.
Proof. exact ktrans_conservation. Qed.
Print Assumptions C06_conservation.

(* the cause: Expiration exactly when the dropped node's deadline had passed, else the action's *)
Theorem C06_cause : forall c k old now dflt e,
  In e (ev_of c k (Some old) now dflt) ->
  ekey e = k /\ evalue e = nval old /\
  (has_expired c old now = true -> ecause e = CExpiration) /\
  (has_expired c old now = false -> ecause e = dflt).
Proof. exact event_cause. Qed.
Print Assumptions C06_cause.

Theorem C06_invalidate_all : forall c s now,
  length (r_events (snd (do_invalidate_all c s now))) = length (cmap s) /\ cmap (fst (do_invalidate_all c s now)) = [].
Proof. exact invalidate_all_events. Qed.
Print Assumptions C06_invalidate_all.

Example C06_nonvacuous :
  let c := mkCfg true false false false (fun _ _ => 1) (fun _ _ _ => 100) (fun _ _ _ _ => 100) (fun _ _ cur => cur)
                 (fun _ _ cur => cur) (fun _ _ _ cur => cur) (fun _ _ _ cur => cur) (fun _ _ cur => cur) in
  map r_events (snd (run c cstate0 [OSet 1 11 1000; OSet 1 12 1050; OSet 1 13 1200; OInvalidate 1 1201])) =
  [[]; [mkEvent 1 11 CReplacement]; [mkEvent 1 12 CExpiration]; [mkEvent 1 13 CInvalidation]].
Proof. vm_compute. reflexivity. Qed.
