package main

import (
	"fmt"
	"runtime"
	"sort"
	"strings"
	"sync"
	"sync/atomic"

	otter "github.com/maypok86/otter/v2"
	"github.com/maypok86/otter/v2/stats"
)

// Engine "lin" (C02): free-running goroutines call Set, SetIfAbsent, GetIfPresent, Compute,
// ComputeIfAbsent, ComputeIfPresent and Invalidate on a few keys of one cache (unbounded, or so
// small that it evicts all the time; the table grows and shrinks underneath through a churner).
// Every call is stamped with a logical clock at invocation and response, compute callbacks record
// what they saw and how often they ran, and automatic removals are recorded as zero-width events at
// the instant OnAtomicDeletion reports them.  The OCaml side searches, per key, for a linearization
// whose every step is a step of the extracted sequential model.
func init() { engines["lin"] = runLin }

type linOp struct {
	g          int
	key        int
	kind       string
	arg        int
	sub        string // compute decision
	retV       int
	retB       bool
	cbCalls    int
	cbFound    bool
	cbOld      int
	call, resp int64
	panicked   bool
}

func runLin(seed uint64, scale int, out string, _ string) *summary {
	r := &rng{s: seed}
	sum := newSummary("lin", seed)
	t := newTrace(out)
	defer t.close()
	seen := map[string]bool{}
	nCases := 1500 * scale
	for cn := 0; cn < nCases; cn++ {
		bounded := r.chance(50)
		maximum := 1 + r.intn(3)
		nkeys := 1 + r.intn(3)
		G := 2 + r.intn(5)
		per := 2 + r.intn(5)
		var clock atomic.Int64
		var mu sync.Mutex
		var autos []linOp
		opts := &otter.Options[int, int]{Logger: &otter.NoopLogger{}}
		if bounded {
			opts.MaximumSize = maximum
		}
		counter := stats.NewCounter()
		opts.StatsRecorder = counter
		var autoAll atomic.Int64
		opts.OnAtomicDeletion = func(e otter.DeletionEvent[int, int]) {
			if e.Cause == otter.CauseOverflow || e.Cause == otter.CauseExpiration {
				autoAll.Add(1)
			}
			if (e.Cause == otter.CauseOverflow || e.Cause == otter.CauseExpiration) && e.Key < 100 {
				ts := clock.Add(1)
				mu.Lock()
				autos = append(autos, linOp{g: -1, key: e.Key, kind: "AUTO", arg: e.Value, call: ts, resp: ts})
				mu.Unlock()
			}
		}
		otter.VerifHook = func(id int) {
			if id != 7 {
				return
			}
			// the automatic removal reported last (under the eviction lock) has now left the table
			mu.Lock()
			if n := len(autos); n > 0 && autos[n-1].resp == autos[n-1].call {
				autos[n-1].resp = clock.Add(1)
			}
			mu.Unlock()
		}
		c := otter.Must(opts)
		// churn other keys so that the table resizes and (when bounded) evicts underneath
		stop := make(chan struct{})
		var churn sync.WaitGroup
		if r.chance(60) {
			churn.Add(1)
			go func() {
				defer churn.Done()
				for i := 0; ; i++ {
					select {
					case <-stop:
						return
					default:
					}
					c.Set(1000+i%400, i)
					if i%3 == 0 {
						c.Invalidate(1000 + (i*7)%400)
					}
				}
			}()
		}
		ops := make([][]linOp, G)
		var wg sync.WaitGroup
		start := make(chan struct{})
		for g := 0; g < G; g++ {
			wg.Add(1)
			lr := &rng{s: seed*31337 + uint64(cn*64+g)}
			go func(g int, lr *rng) {
				defer wg.Done()
				<-start
				for i := 0; i < per; i++ {
					k := lr.intn(nkeys)
					v := (cn%1000)*100000 + g*1000 + i + 1
					op := linOp{g: g, key: k, arg: v}
					x := lr.intn(100)
					func() {
						defer func() {
							if rec := recover(); rec != nil {
								op.panicked = true
							}
							op.resp = clock.Add(1)
						}()
						cb := func(old int, found bool) (int, otter.ComputeOp) {
							op.cbCalls++
							op.cbFound, op.cbOld = found, old
							switch op.sub {
							case "W":
								return v, otter.WriteOp
							case "I":
								return v, otter.InvalidateOp
							default:
								return v, otter.CancelOp
							}
						}
						switch {
						case x < 25:
							op.kind = "SET"
							op.call = clock.Add(1)
							op.retV, op.retB = c.Set(k, v)
						case x < 35:
							op.kind = "SIA"
							op.call = clock.Add(1)
							op.retV, op.retB = c.SetIfAbsent(k, v)
						case x < 60:
							op.kind = "GIP"
							op.call = clock.Add(1)
							op.retV, op.retB = c.GetIfPresent(k)
						case x < 72:
							op.kind = "CMP"
							op.sub = []string{"W", "I", "C"}[lr.intn(3)]
							op.call = clock.Add(1)
							op.retV, op.retB = c.Compute(k, cb)
						case x < 80:
							op.kind = "CIA"
							op.sub = []string{"W", "W", "C"}[lr.intn(3)]
							op.call = clock.Add(1)
							op.retV, op.retB = c.ComputeIfAbsent(k, func() (int, bool) {
								op.cbCalls++
								return v, op.sub == "C"
							})
						case x < 88:
							op.kind = "CIP"
							op.sub = []string{"W", "I", "C"}[lr.intn(3)]
							op.call = clock.Add(1)
							op.retV, op.retB = c.ComputeIfPresent(k, func(old int) (int, otter.ComputeOp) {
								return cb(old, true)
							})
						default:
							op.kind = "INV"
							op.call = clock.Add(1)
							op.retV, op.retB = c.Invalidate(k)
						}
					}()
					ops[g] = append(ops[g], op)
					if lr.chance(30) {
						runtime.Gosched()
					}
				}
			}(g, lr)
		}
		close(start)
		wg.Wait()
		close(stop)
		churn.Wait()
		c.CleanUp()
		otter.VerifHook = nil
		sum.Cases++
		// C20 under concurrency: evictions are counted exactly for the removals the cache performed for
		// size (every entry weighs 1), however invalidations and replacements raced with maintenance
		if snap := counter.Snapshot(); int64(snap.Evictions) != autoAll.Load() || int64(snap.EvictionWeight) != autoAll.Load() {
			sum.fail("C20", "evictions-concurrent", "Evictions / EvictionWeight differ from the automatic removals the cache reported",
				fmt.Sprintf("lin case %d bounded=%v maximum=%d: evictions=%d evictionWeight=%d automatic removals reported=%d", cn, bounded, maximum, snap.Evictions, snap.EvictionWeight, autoAll.Load()))
		}
		// C20 under concurrency: every GetIfPresent / Compute / ComputeIfAbsent / ComputeIfPresent call is one
		// lookup and records exactly one hit or one miss, whatever it raced with (the churner only writes)
		{
			lookups := 0
			for g := range ops {
				for _, o := range ops[g] {
					switch o.kind {
					case "GIP", "CMP", "CIA", "CIP":
						if !o.panicked {
							lookups++
						}
					}
				}
			}
			if snap := counter.Snapshot(); int(snap.Hits+snap.Misses) != lookups {
				sum.fail("C20", "lookups-concurrent", "hits + misses differ from the number of lookups performed",
					fmt.Sprintf("lin case %d bounded=%v keys=%d goroutines=%d: hits=%d misses=%d lookups=%d", cn, bounded, nkeys, G, snap.Hits, snap.Misses, lookups))
			}
		}
		// final values (a read at the very end)
		all := []linOp{}
		for g := range ops {
			all = append(all, ops[g]...)
			sum.Ops += len(ops[g])
		}
		mu.Lock()
		all = append(all, autos...)
		mu.Unlock()
		for k := 0; k < nkeys; k++ {
			ts := clock.Add(1)
			v, ok := c.GetIfPresent(k)
			all = append(all, linOp{g: -2, key: k, kind: "GIP", retV: v, retB: ok, call: ts, resp: clock.Add(1)})
		}
		sort.Slice(all, func(i, j int) bool { return all[i].call < all[j].call })
		t.line("N %d %d %d", cn, b2iG(bounded), nkeys)
		for _, o := range all {
			if o.kind == "" {
				continue
			}
			var sb strings.Builder
			sub := o.sub
			if sub == "" {
				sub = "-"
			}
			fmt.Fprintf(&sb, "E %d %d %s %d %s ; %d %d %d ; %d %d %d ; %d %d", o.g, o.key, o.kind, o.arg, sub, o.retV, b2iG(o.retB), b2iG(o.panicked), o.cbCalls, b2iG(o.cbFound), o.cbOld, o.call, o.resp)
			t.line("%s", sb.String())
			sum.Dist["op_"+o.kind]++
			if o.kind == "CMP" && o.cbCalls != 1 {
				sum.fail("C02", "compute-fn-count", "a compute callback did not run exactly once", fmt.Sprintf("case %d key %d calls=%d", cn, o.key, o.cbCalls))
			}
		}
		seen[fmt.Sprintf("%v/%d/%d/%d", bounded, nkeys, G, per)] = true
		if len(sum.Samples) < 3 {
			sum.Samples = append(sum.Samples, fmt.Sprintf("lin case %d: bounded=%v maximum=%d keys=%d goroutines=%d x %d ops, %d automatic removals", cn, bounded, maximum, nkeys, G, per, len(autos)))
		}
	}
	sum.Distinct = len(seen)
	return sum
}
