(* C14 — Maintenance is never stranded: no lost wake-up after a write.
   Model: Drain.v — the drain-status protocol with the default executor at the granularity of single
   atomic accesses (loads, stores, CAS, TryLock/Lock/Unlock, one buffer pop), every executor
   submission being a new task thread.

   Proved here for ANY number of writers, readers and explicit CleanUp callers, every task they spawn, and
   EVERY schedule (theories/DrainInv.v): C14_no_stranding_any_population — when nothing can move any
   more, every thread has finished, the write buffer is empty, the drain status is idle and the
   eviction lock is free.  The proof is an inductive invariant over counts of threads per program
   counter (C14_invariant): the lock is held by exactly one owner (a spawner owns it until it or its
   task takes the hand-off token), the status is "processing" while an owner is between its status
   store and its release, a "processing" status has a thread that will finish it, a "required"
   status has a thread that will act on it (a writer that gives up at TryLock does so only while
   the owner is one of them), and every buffered event is covered: by a pending drain, by a
   "required" / "processing-to-required" status, or by its producer still being in
   scheduleAfterWrite.  Every step of every thread preserves it (24 program counters, linear
   arithmetic), so no bound on the population is involved.
   The earlier EXHAUSTIVE theorems for small populations (closed reachable sets computed by
   vm_compute, DrainFast.v) are kept as an independent cross-check of the same statement; with the
   writer's retry after a failed CAS removed from the model they evaluate to false.
   The model is tied to the code by the "sched" engine, which executes the real cache in macro steps
   (hook point to hook point) and compares every macro step with DrainMacro.macro_step;
   C14_macro_steps_are_runs shows those macro steps are runs of the small-step model.
   Not proved: that every schedule is finite (fair termination); the statement is about the
   configurations in which nothing can move. *)
From stdpp Require Import gmap.
From Otter Require Import Drain DrainProofs DrainBounded DrainMacro DrainInv DrainF17.

(* soundness of the exploration: a closed set containing the initial configuration contains every
   configuration reachable under every schedule *)
Theorem C14_exploration_sound : forall V s0,
  s0 ∈ V -> closed V = true -> all_terminals_drained V = true ->
  forall s, reachable s0 s -> terminal s = true -> drained s = true.
Proof. exact terminals_drained. Qed.
Print Assumptions C14_exploration_sound.

(* any number of writers (w) and explicit CleanUp callers (c), every schedule *)
Theorem C14_no_stranding_any_population : forall w c sched,
  let s := run_sched (dinit w c) sched in terminal s = true -> drained s = true.
Proof. exact drained_any_population. Qed.
Print Assumptions C14_no_stranding_any_population.

(* ... and any number of READERS besides them (afterRead: a reader whose read was buffered schedules a drain
   only when it sees the status "required"; one that found the read buffer full also when it sees "idle") *)
Theorem C14_no_stranding_with_readers : forall w c rd rf sched,
  let s := run_sched (dinitR w c rd rf) sched in terminal s = true -> drained s = true.
Proof. exact drained_any_population_with_readers. Qed.
Print Assumptions C14_no_stranding_with_readers.

(* ... and any number of callers of the OTHER operations that take the eviction lock: GetMaximum / WeightedSize
   (g: Lock, maintenance only if the status is "required", Unlock, rescheduleCleanUpIfIncomplete) and
   InvalidateAll (iv: Lock, its own loop over the write buffer without touching the status, Unlock,
   rescheduleCleanUpIfIncomplete); SetMaximum and the Hottest / Coldest views run the CleanUp caller's
   program (Lock, maintenance, Unlock, reschedule) and are the c of the statement.  A writer that finds
   the lock held by one of them gives up at TryLock; the statement holds because each of them looks at
   the status again after unlocking — without that step the invariant's clause "a required status has a
   thread that will act on it" fails (this is how F14 and F17 strand maintenance in the code) *)
Theorem C14_no_stranding_with_lock_holders : forall w c rd rf g iv sched,
  let s := run_sched (dinitA w c rd rf g iv) sched in terminal s = true -> drained s = true.
Proof. exact drained_any_population_with_lock_holders. Qed.
Print Assumptions C14_no_stranding_with_lock_holders.

(* ... and any number of writers that find the write buffer FULL (afterWriteTask): every refused TryPush is
   followed by a scheduleDrainBuffers call, and then the event is either accepted (the ordinary writer from
   there on) or, the retries exhausted, the writer runs the maintenance itself (performCleanUp: Lock,
   maintenance with its own event applied directly, Unlock, rescheduleCleanUpIfIncomplete).  Each element of
   fs says how many refusals one such writer meets and which way it ends; the scheduleDrainBuffers calls are
   helper threads, which the writer's goroutine runs to their end before it tries again — one of the schedules
   quantified over, so the model allows at least what the code does *)
Theorem C14_no_stranding_with_caller_runs_fallback : forall w c rd rf g iv fs sched,
  let s := run_sched (dinitF w c rd rf g iv fs) sched in terminal s = true -> drained s = true.
Proof. exact drained_any_population_with_fallback. Qed.
Print Assumptions C14_no_stranding_with_caller_runs_fallback.

(* non-vacuity: one ordinary writer, one CleanUp caller and two writers meeting a full buffer (three refusals
   then accepted; two refusals then caller-runs) under a round-robin schedule end drained, all threads done *)
Example C14_fallback_nonvacuous :
  let s := run_sched (dinitF 1 1 0 0 0 0 [8; 5]) (concat (repeat (seq 0 16) 60)) in
  terminal s = true /\ drained s = true /\ length (ths_of s) >= 9.
Proof. vm_compute. repeat split; repeat constructor. Qed.

(* the model is sensitive to the defect the code had (F17; F14 was the same for the views): an InvalidateAll
   caller that does not look at the status again after unlocking strands a concurrent write *)
Theorem C14_sensitive_to_F17 :
  let s := run_f17 f17_init f17_sched in
  terminal_f17 s = true /\ all_done s = true /\ drained s = false /\ ds_of s = 1 /\ wb_of s = 1.
Proof. exact f17_strands_without_the_reschedule. Qed.

(* the invariant behind it holds in every reachable configuration: in particular the eviction lock
   has exactly one owner when held and none when free, and a status of "processing" or "required"
   always has a thread that will act on it *)
Theorem C14_invariant : forall w c s, reachable (dinit w c) s -> CInv s.
Proof. exact CInv_reachable. Qed.
Print Assumptions C14_invariant.

(* the units in which the correspondence engine executes the code are sequences of small steps of one
   thread: every configuration it visits is reachable in the small-step model *)
Theorem C14_macro_steps_are_runs : forall s0 s i, reachable s0 s -> reachable s0 (macro_step s i).
Proof. exact macro_step_reachable. Qed.
Print Assumptions C14_macro_steps_are_runs.

(* one writer: under every schedule, when nothing can move any more, every thread has finished,
   the write buffer is empty, the drain status is idle and the eviction lock is free *)
Theorem C14_no_stranding_1_writer : forall sched,
  let s := run_sched (dinit 1 0) sched in terminal s = true -> drained s = true.
Proof. exact drained_1_writer. Qed.
Print Assumptions C14_no_stranding_1_writer.

(* two concurrent writers (a write arriving while the other's maintenance is running is either
   processed by that run or causes another run — otherwise a terminal configuration with a non-empty
   buffer or a non-idle status would be reachable) *)
Theorem C14_no_stranding_2_writers : forall sched,
  let s := run_sched (dinit 2 0) sched in terminal s = true -> drained s = true.
Proof. exact drained_2_writers. Qed.
Print Assumptions C14_no_stranding_2_writers.

(* one writer racing with an explicit CleanUp caller (Lock, maintenance, Unlock, reschedule) *)
Theorem C14_no_stranding_1_writer_1_cleanup : forall sched,
  let s := run_sched (dinit 1 1) sched in terminal s = true -> drained s = true.
Proof. exact drained_1_writer_1_cleanup. Qed.
Print Assumptions C14_no_stranding_1_writer_1_cleanup.

Example C14_nonvacuous :
  (* a schedule in which the second writer's push lands while the first writer's task is draining *)
  let s := run_sched (dinit 2 0) ([0;0;0;0;0;0;0;0;0;0;0;0; 2;2;2; 1;1;1;1;1;1;1;1; 2;2;2;2;2;2;2;2;2;2;2;2;2;2;2;2] ++ repeat 3 30 ++ repeat 1 10 ++ repeat 2 10 ++ repeat 4 30)%nat in
  terminal s = true /\ drained s = true.
Proof. vm_compute. split; reflexivity. Qed.
