(* Persist.v — LoadCacheFrom as a program over the concrete model (persistence.go, with the
   repairs: skip entries with exp <= now, warm-up reads before the deadlines are restored,
   zero-weight entries never cut off).  gob is the identity on Entry (modelled).
   SaveCacheTo enumerates Hottest(): each live entry once (C05), in the policy's order, which is
   an input here. *)
From Otter Require Import Base Seq Spec SeqRefine SeqFacts.
From Coq Require Import ZifyBool.
Local Open Scope Z_scope.

Arguments wraps : simpl never.
Arguments satadd : simpl never.

Record saved := mkSaved { sv_key : Z; sv_val : Z; sv_weight : Z; sv_exp : Z; sv_refr : Z }.

(* the part of LoadCacheFrom's loop body that touches one entry: Set, [reads] warm-up reads,
   SetExpiresAfter, SetRefreshableAfter — all at clock [now] *)
Fixpoint warm (c : cfg) (s : cstate) (k : Z) (reads : nat) (now : Z) : cstate :=
  match reads with
  | O => s
  | S r => warm c (fst (get_node c s k now)) k r now
  end.

Definition load_entry (c : cfg) (s : cstate) (e : saved) (reads : nat) (now : Z) : cstate :=
  if with_exp c && (sv_exp e <=? now) then s else
  let s1 := fst (do_set c s (sv_key e) (sv_val e) false now) in
  let s2 := warm c s1 (sv_key e) reads now in
  let s3 := if with_exp c && negb (sv_exp e =? MaxInt64)
            then do_set_expires_after c s2 (sv_key e) (Z.max 1 (wraps (sv_exp e - now))) now else s2 in
  if with_refr c && negb (sv_refr e =? MaxInt64)
  then do_set_refreshable_after c s3 (sv_key e) (Z.max 1 (wraps (sv_refr e - now))) now else s3.

Section P.
Variable c : cfg.
Hypothesis CO : cfg_ok c.

Lemma warm_keeps s k n reads now :
  time_ok now -> node_ok n -> lookup k (cmap s) = Some n -> has_expired c n now = false ->
  exists n', lookup k (cmap (warm c s k reads now)) = Some n' /\ nval n' = nval n /\ nweight n' = nweight n /\
             nrefr n' = nrefr n /\ has_expired c n' now = false /\ node_ok n'.
Proof.
  revert s n. induction reads as [|r IH]; intros s n Ht On L X; cbn [warm].
  - exists n. split; [exact L|]. split; [reflexivity|]. split; [reflexivity|]. split; [reflexivity|]. split; assumption.
  - unfold get_node at 1. rewrite L, X. cbn [fst].
    destruct (calc_exp_read_fields c k n now) as (F1 & F2 & F3).
    destruct (IH (upd_st (upd_map s (mutate k (fun _ => calc_exp_read c k n now) (cmap s))) st_hit) (calc_exp_read c k n now) Ht) as (n' & L' & V & W & Rf & X' & O').
    + apply calc_exp_read_ok; assumption.
    + cbn [cmap upd_st upd_map]. rewrite lookup_mutate_same, L. reflexivity.
    + apply calc_exp_read_live; assumption.
    + exists n'. split; [exact L'|]. split; [congruence|]. split; [congruence|]. split; [congruence|]. split; assumption.
Qed.

Lemma sra_keeps s k d now n :
  lookup k (cmap s) = Some n ->
  exists n', lookup k (cmap (do_set_refreshable_after c s k d now)) = Some n' /\ nval n' = nval n /\ nexp n' = nexp n /\ nweight n' = nweight n.
Proof.
  intros L. unfold do_set_refreshable_after. destruct (negb (with_refr c) || (d <=? 0)); [exists n; auto|].
  rewrite L. destruct (negb (wraps (nrefr n - now) =? d)); [|exists n; auto].
  cbn [cmap upd_map]. rewrite lookup_mutate_same, L. eexists. split; [reflexivity|]. auto.
Qed.

(* an entry that is not expired at load time is loaded (into a cache that does not hold its key)
   with its key, value and the saved expiration deadline, whatever the warm-up reads did to the
   deadline in between *)
Theorem load_entry_exp s e reads now :
  with_exp c = true -> time_ok now -> now < sv_exp e < MaxInt64 -> lookup (sv_key e) (cmap s) = None ->
  exists n, lookup (sv_key e) (cmap (load_entry c s e reads now)) = Some n /\ nval n = sv_val e /\ nexp n = sv_exp e.
Proof.
  intros Hw Ht He Labs. unfold load_entry. rewrite Hw. cbn [andb].
  replace (sv_exp e <=? now) with false by lia. replace (sv_exp e =? MaxInt64) with false by lia. cbn [negb].
  set (k := sv_key e) in *.
  (* Set on an absent key *)
  assert (S1 : exists n1, lookup k (cmap (fst (do_set c s k (sv_val e) false now))) = Some n1 /\ nval n1 = sv_val e /\
                          has_expired c n1 now = false /\ node_ok n1).
  { unfold do_set. cbn [andb]. rewrite Labs.
    pose proof (create_exp c CO k (sv_val e) None NoCall now Hw Ht (or_introl eq_refl)) as Ex.
    pose proof (atomic_set_ok c CO k (sv_val e) None NoCall now Ht ltac:(intros; discriminate)) as Ok.
    destruct (atomic_set c k (sv_val e) None NoCall now) as [nn evs] eqn:EA. cbn [fst cmap upd_map] in *.
    exists nn. unfold put. cbn [lookup fst]. rewrite Z.eqb_refl. split; [reflexivity|]. split.
    - assert (E : nn = fst (atomic_set c k (sv_val e) None NoCall now)) by (rewrite EA; reflexivity).
      rewrite E. unfold atomic_set. cbn [fst]. unfold calc_refr, calc_exp_write, new_node.
      repeat match goal with |- context [match ?x with _ => _ end] => destruct x end; reflexivity.
    - split; [|assumption]. unfold has_expired. rewrite Hw. cbn [andb]. rewrite Ex.
      pose proof (ec_pos c CO k (sv_val e) 0). pose proof (ec_rng c CO k (sv_val e) 0).
      pose proof (satadd_ok now _ Ht (conj H H0)). lia. }
  destruct S1 as (n1 & L1 & V1 & X1 & O1).
  (* warm-up reads *)
  destruct (warm_keeps (fst (do_set c s k (sv_val e) false now)) k n1 reads now Ht O1 L1 X1) as (n2 & L2 & V2 & W2 & R2 & X2 & O2).
  (* SetExpiresAfter restores the saved deadline *)
  assert (Hd : Z.max 1 (wraps (sv_exp e - now)) = sv_exp e - now).
  { unfold time_ok in Ht. rewrite wraps_small by lia. lia. }
  rewrite Hd.
  assert (L3 : lookup k (cmap (do_set_expires_after c (warm c (fst (do_set c s k (sv_val e) false now)) k reads now) k (sv_exp e - now) now)) =
               Some (mkNode (nval n2) (nweight n2) (satadd now (sv_exp e - now)) (nrefr n2))).
  { apply (set_expires_after_live c); try assumption. unfold time_ok in Ht. lia. }
  assert (Es : satadd now (sv_exp e - now) = sv_exp e).
  { unfold time_ok in Ht. rewrite satadd_spec by lia. lia. }
  rewrite Es in L3.
  destruct (with_refr c && negb (sv_refr e =? MaxInt64)).
  - destruct (sra_keeps _ k (Z.max 1 (wraps (sv_refr e - now))) now _ L3) as (n4 & L4 & V4 & E4 & _).
    exists n4. split; [exact L4|]. cbn [nval nexp] in *. split; congruence.
  - eexists. split; [exact L3|]. cbn [nval nexp]. split; congruence.
Qed.

(* nothing expired at load time is loaded *)
Theorem load_entry_skips_expired s e reads now :
  with_exp c = true -> sv_exp e <= now -> load_entry c s e reads now = s.
Proof. intros Hw He. unfold load_entry. rewrite Hw. replace (sv_exp e <=? now) with true by lia. reflexivity. Qed.

End P.
