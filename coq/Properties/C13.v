(* C13 — Expired entries are swept and reported within one timer tick.
   Model: Wheel.v with the real constants (5 levels, 64/64/32/4/1 buckets, shifts 30/36/42/47/49),
   deadlines read at sweep time (reads may extend them), findBucket clamping an already-due
   expiration to the wheel's time (the repair of the stale-clock defect).  The implementation's
   wheel is compared bucket by bucket with the model after every operation (engine "maint").
   Proved here: the sweep's decision and the placement of due timers; the placement invariant for
   all add/delete/sweep sequences is C13_wheel_inv in theories/WheelInv.v when present (DESIGN 5). *)
From Otter Require Import Base Wheel WheelFacts.

(* a timer whose expiration already lies before the wheel's time (a write that sampled the clock
   before a later sweep) is placed in level 0, in the bucket of the wheel's current tick *)
Theorem C13_due_timer_placement : forall w e,
  0 <= wtime w < two64 -> e < wtime w ->
  find_bucket w e = (0%nat, Z.to_nat (Z.land (Z.shiftr (wtime w) 30) 63), wtime w).
Proof. exact find_bucket_due. Qed.
Print Assumptions C13_due_timer_placement.

(* the sweep of a bucket expires exactly the timers whose current deadline lies before the wheel's
   time (each once), and re-links all the others *)
Theorem C13_sweep_decision : forall cur ts w acc,
  let '(w1, acc1) := sweep_timers cur w ts acc in
  wtime w1 = wtime w /\ acc1 = acc ++ map tid (filter (fun t => cur (tid t) <? wtime w) ts).
Proof. exact sweep_timers_spec. Qed.
Print Assumptions C13_sweep_decision.

(* concrete instances with the real constants: deadlines from nanoseconds to years ahead, single
   and multi-revolution clock jumps, and the stale-clock write (exp < wheel time at Add) *)
Example C13_instances :
  let sweep_all w t := snd (wheel_delete_expired (fun id => id) w t) in
  let w0 := mkWheel 1000000 (wlevels wheel0) in
  (* timer ids are their own deadlines *)
  let w := fold_left (fun w e => wheel_add w e e) [1000001; 2000000000; 70000000000; 5000000000000; 200000000000000; 600000000000000] w0 in
  sweep_all w (1000000 + 1073741824) = [1000001] /\
  sweep_all w 80000000000 = [1000001; 2000000000; 70000000000] /\
  sweep_all w 700000000000000 = [1000001; 2000000000; 70000000000; 5000000000000; 200000000000000; 600000000000000] /\
  (* stale clock: deadline 500 < wheel time 1000000: swept at the next tick boundary *)
  sweep_all (wheel_add w0 500 500) (1000000 + 1073741824) = [500].
Proof. vm_compute. repeat split. Qed.
