package main

import (
	"fmt"
	"sort"
	"strings"
	"time"

	otter "github.com/maypok86/otter/v2"
)

// Engine "mid" (C05, C06, C04; implementation oracles only): index actions that land INSIDE a maintenance
// run — after it has drained the write buffer, before or between its expirations and evictions — the
// window in which a node the run is about to remove has been replaced or invalidated while the task that
// says so is still in the write buffer.  One goroutine suffices: a write needs no lock, so it can be made
//   (a) from the Clock sample expireNodes takes (after drainWriteBuffer, before the wheel is walked), and
//   (b) from hook point 7 in evictNode (after the victim left the table: between two evictions of a pass).
// The Coq side is PolicyInv.v's SX_step: the bookkeeping invariant is preserved when a maintenance run is
// split into its drain part and its expire/evict/climb part with any index actions and task arrivals in
// between.  Oracles at quiescence (after explicit CleanUps until the status is idle): every view agrees
// with the table (EstimatedSize, iteration, Hottest/Coldest, the audit's deques and wheel), the bound
// holds, each written value is present or reported exactly once to each handler with identical
// (key, value, cause), nothing present is reported; finally, far in the future, an expiring cache is empty.
func init() { engines["mid"] = runMid }

type midEv struct {
	k, v int
	c    otter.DeletionCause
}

func runMid(seed uint64, scale int, out string, _ string) *summary {
	r := &rng{s: seed}
	sum := newSummary("mid", seed)
	t := newTrace(out)
	defer t.close()
	seen := map[string]bool{}
	nCases := 400 * scale
	fails := 0
	for cn := 0; cn < nCases && fails < 8; cn++ {
		bounded := r.intn(3) != 0
		expiring := !bounded || r.intn(2) == 0
		weighted := bounded && r.intn(3) == 0
		maximum := 3 + r.intn(6)
		nkeys := maximum + 1 + r.intn(4)
		clk := &manualClock{now: 1000}
		var atomicEv, asyncEv []midEv
		opts := &otter.Options[int, int]{Logger: &otter.NoopLogger{}, Clock: clk}
		opts.Executor = func(fn func()) { fn() }
		opts.OnAtomicDeletion = func(e otter.DeletionEvent[int, int]) { atomicEv = append(atomicEv, midEv{e.Key, e.Value, e.Cause}) }
		opts.OnDeletion = func(e otter.DeletionEvent[int, int]) { asyncEv = append(asyncEv, midEv{e.Key, e.Value, e.Cause}) }
		if bounded {
			if weighted {
				opts.MaximumWeight = uint64(maximum)
				opts.Weigher = func(k, v int) uint32 { return uint32(1 + k%2) }
			} else {
				opts.MaximumSize = maximum
			}
		}
		// all operations happen at 1000 + a multiple of Q (four timer ticks), the time to live is 3Q, and the
		// oracles are evaluated half a Q later: no deadline is then closer than two ticks to the clock, so that
		// "expired but not yet swept" (legal for up to a tick) cannot be mistaken for a disagreement
		const Q = int64(1) << 32
		ttl := 3 * Q
		accessing := false
		if expiring {
			if r.intn(2) == 0 {
				opts.ExpiryCalculator = otter.ExpiryWriting[int, int](time.Duration(ttl))
			} else {
				opts.ExpiryCalculator = otter.ExpiryAccessing[int, int](time.Duration(ttl))
				accessing = true
			}
		}
		c := otter.Must(opts)
		desc := fmt.Sprintf("case %d bounded=%v weighted=%v max=%d expiring=%v accessing=%v keys=%d", cn, bounded, weighted, maximum, expiring, accessing, nkeys)
		var script []string
		nextVal := 1000 * (cn + 1)
		written := map[int]int{} // value -> key
		val := func(k int) int { nextVal++; written[nextVal] = k; return nextVal }
		settle := func() {
			for i := 0; i < 6; i++ {
				c.CleanUp()
				if ds, wb := otter.VerifDrainState(c); ds == 0 && wb == 0 {
					return
				}
			}
		}
		// the index action made inside the maintenance run
		action := func(where string) {
			k := r.intn(nkeys)
			switch x := r.intn(10); {
			case x < 4:
				v := val(k)
				c.Set(k, v)
				script = append(script, fmt.Sprintf("%s:Set(%d,%d)", where, k, v))
				sum.Dist["mid_set"]++
			case x < 8:
				c.Invalidate(k)
				script = append(script, fmt.Sprintf("%s:Invalidate(%d)", where, k))
				sum.Dist["mid_invalidate"]++
			case x < 9:
				v := 0
				c.Compute(k, func(old int, found bool) (int, otter.ComputeOp) {
					if found {
						return 0, otter.InvalidateOp
					}
					v = val(k)
					return v, otter.WriteOp
				})
				script = append(script, fmt.Sprintf("%s:Compute(%d,%d)", where, k, v))
				sum.Dist["mid_compute"]++
			default:
				c.GetIfPresent(k)
				script = append(script, fmt.Sprintf("%s:Get(%d)", where, k))
			}
			sum.Ops++
		}
		inPass := false
		evictions := 0
		trigger := -1
		otter.VerifHook = func(id int) {
			if id == 7 && inPass {
				evictions++
				if evictions == trigger {
					inPass = false // the nested calls must not re-enter
					n := 1 + r.intn(2)
					for i := 0; i < n; i++ {
						action(fmt.Sprintf("evict#%d", evictions))
					}
					inPass = true
				}
			}
		}
		rounds := 2 + r.intn(4)
		for rd := 0; rd < rounds; rd++ {
			// fill
			for k := 0; k < nkeys; k++ {
				if r.intn(4) != 0 {
					v := val(k)
					c.Set(k, v)
					script = append(script, fmt.Sprintf("Set(%d,%d)", k, v))
					sum.Ops++
				}
			}
			if r.intn(2) == 0 {
				settle()
				script = append(script, "CleanUp")
			}
			if accessing && r.intn(2) == 0 {
				c.GetIfPresent(r.intn(nkeys))
			}
			// a maintenance run with index actions inside
			if expiring && r.intn(3) != 0 {
				clk.now += []int64{Q, 2 * Q, 3 * Q, 4 * Q, 6 * Q}[r.intn(5)]
				script = append(script, fmt.Sprintf("clock=%d", clk.now))
			}
			evictions = 0
			trigger = -1
			if r.intn(2) == 0 {
				trigger = 1 + r.intn(3)
			}
			if expiring && r.intn(3) != 0 {
				clk.hook = func() {
					was := inPass
					inPass = false
					n := 1 + r.intn(2)
					for i := 0; i < n; i++ {
						action("expire-sample")
					}
					inPass = was
				}
			}
			inPass = true
			if bounded && r.intn(3) == 0 {
				nm := uint64(r.intn(maximum + 1))
				script = append(script, fmt.Sprintf("SetMaximum(%d){", nm))
				c.SetMaximum(nm)
				script = append(script, "}")
				if r.intn(2) == 0 {
					inPass = false
					settle()
					inPass = true
					c.SetMaximum(uint64(maximum))
					script = append(script, fmt.Sprintf("SetMaximum(%d)", maximum))
				} else {
					maximum = int(nm)
				}
			} else {
				script = append(script, "CleanUp{")
				c.CleanUp()
				script = append(script, "}")
			}
			inPass = false
			clk.hook = nil
			sum.Ops++
			clk.now += Q / 2
			settle()
			// ---- oracles at quiescence
			fail := func(prop, sig, what string) {
				tail := script
				if len(tail) > 60 {
					tail = tail[len(tail)-60:]
				}
				sum.fail(prop, sig, what, fmt.Sprintf("%s round=%d script=[%s]", desc, rd, strings.Join(tail, " ")))
				t.line("F %d %d %s %s", cn, rd, prop, sig)
				fails++
			}
			present := map[int]int{} // key -> value
			var totalW uint64
			for k, v := range c.All() {
				if _, dup := present[k]; dup {
					fail("C05", "iteration-duplicate", fmt.Sprintf("iteration yields key %d twice", k))
				}
				present[k] = v
				if e, ok := c.GetEntryQuietly(k); ok {
					totalW += uint64(e.Weight)
				}
			}
			if es := c.EstimatedSize(); es != len(present) {
				fail("C05", "estimated-size", fmt.Sprintf("EstimatedSize=%d but iteration yields %d entries", es, len(present)))
			}
			if weighted {
				if ws := c.WeightedSize(); ws != totalW {
					fail("C05", "weighted-size", fmt.Sprintf("WeightedSize=%d but the entries present weigh %d", ws, totalW))
				}
			}
			if bounded {
				if totalW > uint64(maximum) && weighted || !weighted && len(present) > maximum {
					fail("C04", "over-bound", fmt.Sprintf("%d entries of total weight %d at quiescence, maximum %d", len(present), totalW, maximum))
				}
				for name, view := range map[string]func() []int{
					"Hottest": func() (ks []int) {
						for e := range c.Hottest() {
							ks = append(ks, e.Key)
						}
						return
					},
					"Coldest": func() (ks []int) {
						for e := range c.Coldest() {
							ks = append(ks, e.Key)
						}
						return
					},
				} {
					ks := view()
					sort.Ints(ks)
					var want []int
					for k := range present {
						want = append(want, k)
					}
					sort.Ints(want)
					if fmt.Sprint(ks) != fmt.Sprint(want) {
						fail("C05", "order-view", fmt.Sprintf("%s enumerates %v, the entries present are %v", name, ks, want))
					}
				}
			}
			a := otter.VerifAudit(c)
			if len(a.Table) != len(present) {
				fail("C05", "table-vs-iteration", fmt.Sprintf("the table holds %d nodes, iteration yields %d entries (a node that is in the table but not alive?)", len(a.Table), len(present)))
			}
			for _, n := range a.Table {
				if n.State != 0 {
					fail("C05", "non-alive-in-table", fmt.Sprintf("node (key %d, value %d) is in the table in state %d at quiescence", n.Key, n.Value, n.State))
				}
			}
			if a.WithEviction && len(a.Window)+len(a.Probation)+len(a.Protected) != len(a.Table) {
				fail("C05", "deques-vs-table", fmt.Sprintf("deques hold %d nodes, the table %d", len(a.Window)+len(a.Probation)+len(a.Protected), len(a.Table)))
			}
			if a.WithExpiration {
				nw := 0
				for _, lv := range a.Wheel {
					for _, sl := range lv {
						nw += len(sl)
					}
				}
				if nw != len(a.Table) {
					fail("C05", "wheel-vs-table", fmt.Sprintf("the timer wheel tracks %d nodes, the table holds %d", nw, len(a.Table)))
				}
			}
			// C06: both handlers saw the same removals; written = present + reported, each once
			key := func(e midEv) string { return fmt.Sprintf("%d/%d/%d", e.k, e.v, e.c) }
			am, sm := map[string]int{}, map[string]int{}
			for _, e := range atomicEv {
				am[key(e)]++
			}
			for _, e := range asyncEv {
				sm[key(e)]++
			}
			for k2, n := range am {
				if sm[k2] != n {
					fail("C06", "ondeletion-missing", fmt.Sprintf("removal key/value/cause=%s: OnAtomicDeletion %d time(s), OnDeletion %d", k2, n, sm[k2]))
				}
			}
			for k2, n := range sm {
				if am[k2] != n {
					fail("C06", "ondeletion-extra", fmt.Sprintf("removal key/value/cause=%s: OnDeletion %d time(s), OnAtomicDeletion %d", k2, n, am[k2]))
				}
			}
			reported := map[int]int{}
			for _, e := range atomicEv {
				reported[e.v]++
			}
			for v, k := range written {
				isPresent := present[k] == v
				switch {
				case isPresent && reported[v] > 0:
					fail("C06", "present-reported", fmt.Sprintf("value %d of key %d is present and was reported as removed", v, k))
				case !isPresent && reported[v] != 1:
					fail("C06", "not-once", fmt.Sprintf("value %d of key %d is gone and was reported %d times", v, k, reported[v]))
				}
			}
			seen[fmt.Sprintf("%v/%v/%v/%d", bounded, expiring, weighted, len(present))] = true
			clk.now += Q / 2
		}
		if expiring && fails == 0 {
			clk.now += 1<<40 + Q/2
			settle()
			clk.now += Q
			settle()
			if es := c.EstimatedSize(); es != 0 {
				sum.fail("C05", "never-expires", fmt.Sprintf("EstimatedSize=%d long after every deadline: an entry is unknown to the expiration policy", es),
					fmt.Sprintf("%s script=[%s]", desc, strings.Join(script, " ")))
				fails++
			}
		}
		otter.VerifHook = nil
		sum.Cases++
		t.line("K %d %d", cn, len(script))
	}
	otter.VerifHook = nil
	sum.Distinct = len(seen)
	return sum
}
