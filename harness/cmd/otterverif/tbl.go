package main

// Engine "tbl" — the hash table's concurrency protocol (internal/hashmap/map.go: Compute's lock /
// resize-in-progress / newer-table checks, resize's flag, bucket-by-bucket copy, publication and
// release, the lock-free Get) executed one macro step at a time under schedules chosen by the harness,
// for the extracted small-step model (theories/HashMapConc.v) to replay.
//
// Every Compute and Get runs in its own goroutine and parks at the protocol's hook points
//
//	31 Compute: before the root bucket's Lock            (model pc W1)
//	32 Compute: after the Lock                            (W2)
//	33 Compute: before the newer-table check              (W3)
//	34 Compute: after both checks                         (W4)
//	43 Compute: after the Unlock of an insert / delete    (Wadd: the size counter not yet adjusted)
//	35 resize: before the CAS on the resizing flag        (R0)
//	36 resize: before the copy                            (R1, nothing copied)
//	37 resize: before a source bucket of the copy         (R1; only buckets some thread's key lives in)
//	38 resize: before the new table is published          (R2)
//	39 resize: before the resizing flag is cleared        (R3)
//	40 Get: after the table load                          (G1)
//	41 Range: after the table load                        (I1, nothing read)
//	42 Range: before a bucket's Lock                      (I1; only buckets some thread's key lives in)
//
// and exactly one of them is resumed at a time; it runs to its next hook point, to the end of its
// call, or until it blocks on a bucket lock or on the resize condition variable (decided from the
// goroutine's wait reason in the runtime's stack dump, not from timing).  After every macro step the
// table length, the resizing flag, every thread's position and every function invocation (with the
// binding it was given) are written to the trace, and, whenever a new table has been published, the
// bucket every key of the run hashes to in it.  The replayer executes the same steps on the model and
// compares positions, table lengths, the flag, the bindings the functions saw, the values the Gets
// returned and the final content.
//
// Implementation-only oracles (C15, C02): every Compute invokes its function exactly once; at the end
// the table's content (Range) and Size are those of a sequential map to which the functions were
// applied in the order they were invoked; each function was given the binding that sequential map had;
// a Range yields no key twice, yields every key that was bound during its whole duration, and yields
// only bindings the key had at some moment of its duration.

import (
	"fmt"
	"runtime"
	"sort"
	"strings"
	"sync"
	"time"

	"github.com/maypok86/otter/v2"
)

func init() { engines["tbl"] = runTbl }

func condWait(st string) bool { return strings.HasPrefix(st, "sync.Cond.Wait") }

// condReasonWorks checks that this Go runtime reports a goroutine blocked in sync.Cond.Wait as such.
func condReasonWorks() bool {
	var mu sync.Mutex
	cond := sync.NewCond(&mu)
	flag := false
	ids := make(chan int64, 1)
	done := make(chan struct{})
	go func() {
		ids <- goid()
		mu.Lock()
		for !flag {
			cond.Wait()
		}
		mu.Unlock()
		close(done)
	}()
	id := <-ids
	ok := false
	for i := 0; i < 2000 && !ok; i++ {
		if st, found := goroutineStates()[id]; found && condWait(st) {
			ok = true
		}
		time.Sleep(50 * time.Microsecond)
	}
	mu.Lock()
	flag = true
	cond.Broadcast()
	mu.Unlock()
	<-done
	return ok
}

type tbThread struct {
	idx      int
	kind     byte // 'W' Compute, 'G' Get, 'I' Range
	key      int
	op       int // 1 set val, 2 delete, 3 add val to an existing binding, 0 leave as is
	val      int
	goid     int64
	release  chan struct{}
	state    byte // 'R' running, 'P' parked, 'B' blocked on a bucket lock, 'C' waiting for the resize, 'D' done
	hook     int
	hidx     uint32
	calls    int
	resFound bool
	resVal   int
	yielded  [][2]int // Range: the pairs yielded, in order
	startIdx int      // Range: number of function invocations before it started
	endIdx   int      // Range: ... when it returned
}

// keyChange: after the idx-th function invocation of the case the key is bound to val (or absent)
type keyChange struct {
	idx     int
	present bool
	val     int
}

type tbEvent struct {
	idx  int
	kind byte // 'A' arrival, 'F' finished
	hook int
	hidx uint32
}

type tbCtl struct {
	mu      spinLock
	threads []*tbThread
	byGoid  map[int64]*tbThread
	ev      chan tbEvent
	m       *otter.VerifMap
	flog    []string // function invocations since the last observation
	spec    map[int]int
	specBad string
	nInv    int                 // function invocations so far
	changes map[int][]keyChange // per key, its bindings over the invocations (entry 0: the preloaded one)
}

// bindingAt returns the key's binding after the idx-th invocation
func (c *tbCtl) bindingAt(k, idx int) (int, bool) {
	var v int
	ok := false
	for _, ch := range c.changes[k] {
		if ch.idx > idx {
			break
		}
		v, ok = ch.val, ch.present
	}
	return v, ok
}

func (c *tbCtl) lookup() *tbThread {
	g := goid()
	c.mu.RLock()
	th := c.byGoid[g]
	c.mu.RUnlock()
	return th
}

// interesting tells whether some thread's key lives in bucket idx of the table being copied
func (c *tbCtl) interesting(idx uint32) bool {
	n := uint64(c.m.TableLen())
	c.mu.RLock()
	defer c.mu.RUnlock()
	for _, th := range c.threads {
		if th.state != 'D' && uint32(otter.VerifH1(c.m.Hash(th.key))&(n-1)) == idx {
			return true
		}
	}
	return false
}

func (c *tbCtl) hookFn(id int, idx uint32) {
	th := c.lookup()
	if th == nil {
		return
	}
	if (id == 37 || id == 42) && !c.interesting(idx) {
		return
	}
	c.ev <- tbEvent{idx: th.idx, kind: 'A', hook: id, hidx: idx}
	<-th.release
}

func (c *tbCtl) absorb() {
	for {
		select {
		case e := <-c.ev:
			c.mu.Lock()
			th := c.threads[e.idx]
			if e.kind == 'A' {
				th.state, th.hook, th.hidx = 'P', e.hook, e.hidx
			} else {
				th.state = 'D'
			}
			c.mu.Unlock()
		default:
			return
		}
	}
}

// settle waits until every thread is parked, done, or blocked (on a bucket lock or on the resize
// condition) according to the runtime.  It returns false on a hang.
func (c *tbCtl) settle() bool {
	deadline := time.Now().Add(8 * time.Second)
	stable := 0
	for {
		c.absorb()
		states := goroutineStates()
		c.mu.Lock()
		running := 0
		for _, th := range c.threads {
			switch th.state {
			case 'R':
				if th.goid != 0 {
					if st, ok := states[th.goid]; ok {
						if lockWait(st) {
							th.state = 'B'
						} else if condWait(st) {
							th.state = 'C'
						}
					}
				}
				if th.state == 'R' {
					running++
				}
			case 'B':
				if st, ok := states[th.goid]; !ok || !lockWait(st) {
					th.state = 'R'
					running++
				}
			case 'C':
				if st, ok := states[th.goid]; !ok || !condWait(st) {
					th.state = 'R'
					running++
				}
			}
		}
		c.mu.Unlock()
		if running == 0 && len(c.ev) == 0 {
			// a goroutine seen blocked may have been woken since the dump: look three times, letting
			// the others run in between
			stable++
			if stable >= 3 {
				return true
			}
			runtime.Gosched()
			time.Sleep(30 * time.Microsecond)
			continue
		}
		stable = 0
		if time.Now().After(deadline) {
			return false
		}
		time.Sleep(20 * time.Microsecond)
	}
}

func (c *tbCtl) labels() string {
	var sb strings.Builder
	c.mu.RLock()
	for _, th := range c.threads {
		switch th.state {
		case 'P':
			if th.hook == 31 || th.hook == 37 || th.hook == 42 {
				fmt.Fprintf(&sb, " P%d:%d", th.hook, th.hidx)
			} else {
				fmt.Fprintf(&sb, " P%d", th.hook)
			}
		case 'B':
			sb.WriteString(" B")
		case 'C':
			sb.WriteString(" C")
		case 'D':
			if th.kind == 'G' {
				if th.resFound {
					fmt.Fprintf(&sb, " D=%d", th.resVal)
				} else {
					sb.WriteString(" D=-")
				}
			} else {
				sb.WriteString(" D")
			}
		default:
			sb.WriteString(" R")
		}
	}
	c.mu.RUnlock()
	return sb.String()
}

func runTbl(seed uint64, scale int, out string, _ string) *summary {
	r := &rng{s: seed}
	sum := newSummary("tbl", seed)
	t := newTrace(out)
	defer t.close()
	if !waitReasonWorks() || !condReasonWorks() {
		sum.Notes["skipped"] = "the Go runtime does not report sync.Mutex.Lock / sync.Cond.Wait as goroutine wait reasons"
		return sum
	}
	seen := map[string]bool{}
	schedules := 60 * scale
	failures := 0
	for sc := 0; sc < schedules && failures < 4; sc++ {
		sr := &rng{s: r.next()}
		stage := sr.intn(5) // 0,1 grow; 2,3 shrink; 4 plain
		m := otter.VerifNewMap(0)
		ctl := &tbCtl{byGoid: map[int64]*tbThread{}, ev: make(chan tbEvent, 1024), m: m, spec: map[int]int{}, changes: map[int][]keyChange{}}
		set := func(k, v int) {
			m.Compute(k, func(int, bool) (int, int) { return v, 1 })
		}
		del := func(k int) {
			m.Compute(k, func(int, bool) (int, int) { return 0, 2 })
		}
		stageName := "plain"
		var present []int
		switch {
		case stage <= 1:
			stageName = "grow"
			for k := 1; k <= 121; k++ {
				set(k, k)
				present = append(present, k)
			}
		case stage <= 3:
			stageName = "shrink"
			k := 1
			for ; m.TableLen() == 32 && k < 400; k++ {
				set(k, k)
			}
			last := k
			keep := map[int]bool{}
			for len(keep) < 3 {
				keep[1+sr.intn(last-1)] = true
			}
			for k := 1; k < last; k++ {
				if keep[k] {
					present = append(present, k)
				} else {
					del(k)
				}
			}
		default:
			for k := 1; k <= 4+sr.intn(10); k++ {
				set(k, k)
				present = append(present, k)
			}
		}
		startLen := m.TableLen()
		if (stageName == "grow" && startLen != 32) || (stageName == "shrink" && startLen != 64) {
			sum.Dist["stage_setup_unexpected_"+stageName]++
		}
		// thread keys: present keys, fresh keys whose bucket chain is full (an insert must grow the table when it
		// is over its load factor), fresh keys elsewhere
		_, occ, _ := m.Chains()
		n := uint64(startLen)
		var freshFull, freshOther []int
		for k := 10000; k < 10400 && (len(freshFull) < 4 || len(freshOther) < 4); k++ {
			b := otter.VerifH1(m.Hash(k)) & (n - 1)
			if occ[b] > 0 && occ[b]%5 == 0 {
				if len(freshFull) < 4 {
					freshFull = append(freshFull, k)
				}
			} else if len(freshOther) < 4 {
				freshOther = append(freshOther, k)
			}
		}
		pickKey := func() int {
			x := sr.intn(10)
			switch {
			case x < 4 && len(present) > 0:
				if stageName == "shrink" || sr.chance(50) {
					return present[sr.intn(len(present))]
				}
				return present[sr.intn(min(len(present), 6))]
			case x < 8 && len(freshFull) > 0 && stageName == "grow":
				return freshFull[sr.intn(len(freshFull))]
			case len(freshOther) > 0:
				return freshOther[sr.intn(min(len(freshOther), 2))]
			}
			return 10000
		}
		universe := map[int]bool{}
		for _, k := range present {
			universe[k] = true
		}
		for _, k := range freshFull {
			universe[k] = true
		}
		for _, k := range freshOther {
			universe[k] = true
		}
		universe[10000] = true
		var keys []int
		for k := range universe {
			keys = append(keys, k)
		}
		sort.Ints(keys)
		version := 0
		curLen := startLen
		dumpHashes := func() {
			nn := uint64(m.TableLen())
			t.line("H %d %d", version, nn)
			for _, k := range keys {
				t.line("K %d %d %d", version, k, otter.VerifH1(m.Hash(k))&(nn-1))
			}
		}
		maxT := 3 + sr.intn(5)
		desc := fmt.Sprintf("schedule %d stage=%s threads<=%d", sc, stageName, maxT)
		t.line("CASE %d %d", sc, startLen)
		dumpHashes()
		m.Range(func(k, v int) bool {
			t.line("PRE %d %d", k, v)
			ctl.spec[k] = v
			ctl.changes[k] = []keyChange{{0, true, v}}
			return true
		})
		otter.VerifSetMapHook(ctl.hookFn)
		var script []string
		started, steps, sticky := 0, 0, -1
		hang := false
		observe := func() string {
			ctl.mu.Lock()
			fl := ctl.flog
			ctl.flog = nil
			ctl.mu.Unlock()
			for _, l := range fl {
				t.line("%s", l)
			}
			if l := m.TableLen(); l != curLen {
				curLen = l
				version++
				dumpHashes()
			}
			rz := 0
			if m.Resizing() {
				rz = 1
			}
			return fmt.Sprintf("O %d %d%s", curLen, rz, ctl.labels())
		}
		for {
			ctl.mu.RLock()
			var parked []int
			waiting := 0
			for _, th := range ctl.threads {
				switch th.state {
				case 'P':
					parked = append(parked, th.idx)
				case 'B', 'C':
					waiting++
				}
			}
			ctl.mu.RUnlock()
			canN := started < maxT && steps < 200
			if len(parked) == 0 && !canN {
				if waiting > 0 {
					sum.fail("C15", "tbl-deadlock", "every remaining Compute is blocked on a bucket lock or waits for a resize, and nothing can release it",
						fmt.Sprintf("%s script=%s state=%s", desc, strings.Join(script, " "), ctl.labels()))
					failures++
					hang = true
				}
				break
			}
			if steps > 600 {
				break
			}
			steps++
			sum.Ops++
			pick := -1
			if sticky >= 0 && sr.chance(50) {
				for _, p := range parked {
					if p == sticky {
						pick = p
					}
				}
			}
			newThread := false
			forceInsert := false
			if stageName == "shrink" && canN && pick < 0 && sr.chance(45) {
				// a shrink attempt parked before its CAS on the flag: let an insert come in first, so that the
				// re-check made under the flag finds the table no longer small enough and gives up
				ctl.mu.RLock()
				for _, th := range ctl.threads {
					if th.state == 'P' && th.hook == 35 {
						forceInsert = true
					}
				}
				ctl.mu.RUnlock()
				if forceInsert {
					newThread = true
				}
			}
			if pick < 0 && !newThread {
				nn := len(parked)
				if canN {
					nn++
				}
				x := sr.intn(nn)
				if x < len(parked) {
					pick = parked[x]
				} else {
					newThread = true
				}
			}
			if newThread {
				started++
				th := &tbThread{release: make(chan struct{}, 1), state: 'R', key: pickKey()}
				if x := sr.intn(100); x < 20 {
					th.kind = 'G'
				} else if x < 32 {
					th.kind = 'I'
				} else {
					th.kind = 'W'
					th.op = []int{1, 1, 2, 2, 3, 0}[sr.intn(6)]
					if stageName == "shrink" && sr.chance(50) {
						th.op = 2
					}
					th.val = 100 + started
				}
				if forceInsert {
					th.kind, th.op, th.val = 'W', 1, 100+started
					if len(freshOther) > 0 {
						th.key = freshOther[sr.intn(len(freshOther))]
					}
					sum.Dist["insert_before_a_parked_shrink_attempt"]++
				}
				ctl.mu.Lock()
				th.idx = len(ctl.threads)
				ctl.threads = append(ctl.threads, th)
				ctl.mu.Unlock()
				sticky = th.idx
				go func() {
					g := goid()
					ctl.mu.Lock()
					th.goid = g
					ctl.byGoid[g] = th
					ctl.mu.Unlock()
					if th.kind == 'G' {
						v, ok := m.Get(th.key)
						ctl.mu.Lock()
						th.resVal, th.resFound = v, ok
						ctl.mu.Unlock()
					} else if th.kind == 'I' {
						ctl.mu.Lock()
						th.startIdx = ctl.nInv
						ctl.mu.Unlock()
						var ys [][2]int
						m.Range(func(k, v int) bool {
							ys = append(ys, [2]int{k, v})
							return true
						})
						ctl.mu.Lock()
						th.yielded = ys
						th.endIdx = ctl.nInv
						for _, y := range ys {
							ctl.flog = append(ctl.flog, fmt.Sprintf("Y %d %d %d", th.idx, y[0], y[1]))
						}
						ctl.mu.Unlock()
					} else {
						m.Compute(th.key, func(old int, found bool) (int, int) {
							ctl.mu.Lock()
							defer ctl.mu.Unlock()
							th.calls++
							if found {
								ctl.flog = append(ctl.flog, fmt.Sprintf("F %d 1 %d", th.idx, old))
							} else {
								ctl.flog = append(ctl.flog, fmt.Sprintf("F %d 0 0", th.idx))
							}
							sv, sok := ctl.spec[th.key]
							if sok != found || (found && sv != old) {
								ctl.specBad = fmt.Sprintf("thread %d key %d was given (%d,%v), the sequential map has (%d,%v)", th.idx, th.key, old, found, sv, sok)
							}
							ctl.nInv++
							switch th.op {
							case 1:
								ctl.spec[th.key] = th.val
								ctl.changes[th.key] = append(ctl.changes[th.key], keyChange{ctl.nInv, true, th.val})
								return th.val, 1
							case 2:
								delete(ctl.spec, th.key)
								ctl.changes[th.key] = append(ctl.changes[th.key], keyChange{ctl.nInv, false, 0})
								return 0, 2
							case 3:
								if found {
									ctl.spec[th.key] = old + th.val
									ctl.changes[th.key] = append(ctl.changes[th.key], keyChange{ctl.nInv, true, old + th.val})
									return old + th.val, 1
								}
								return 0, 0
							}
							return 0, 0
						})
					}
					ctl.ev <- tbEvent{idx: th.idx, kind: 'F'}
				}()
				if th.kind == 'G' {
					script = append(script, fmt.Sprintf("G(%d)", th.key))
					t.line("N G %d", th.key)
				} else if th.kind == 'I' {
					script = append(script, "I")
					t.line("N I")
				} else {
					script = append(script, fmt.Sprintf("W(%d,%d,%d)", th.key, th.op, th.val))
					t.line("N W %d %d %d", th.key, th.op, th.val)
				}
			} else {
				sticky = pick
				ctl.mu.Lock()
				th := ctl.threads[pick]
				th.state = 'R'
				ctl.mu.Unlock()
				th.release <- struct{}{}
				script = append(script, fmt.Sprintf("S%d", pick))
				t.line("S %d", pick)
			}
			if !ctl.settle() {
				hang = true
				sum.fail("C15", "tbl-hang", "a resumed Compute/Get neither reached a hook point, nor blocked, nor returned within 8 s",
					fmt.Sprintf("%s script=%s state=%s", desc, strings.Join(script, " "), ctl.labels()))
				failures++
				break
			}
			obs := observe()
			t.line("%s", obs)
			seen[obs] = true
		}
		otter.VerifSetMapHook(nil)
		ctl.mu.Lock()
		left := 0
		for _, th := range ctl.threads {
			if th.state != 'D' {
				left++
			}
			if th.state == 'P' {
				th.state = 'R'
				th.release <- struct{}{}
			}
		}
		ctl.mu.Unlock()
		if hang || left > 0 {
			t.line("ABORT")
			if !hang {
				ctl.settle()
			}
			if hang {
				continue
			}
		}
		// implementation-only oracles
		ctl.mu.RLock()
		bad := ctl.specBad
		for _, th := range ctl.threads {
			if th.kind == 'W' && th.state == 'D' && th.calls != 1 {
				bad = fmt.Sprintf("thread %d invoked its function %d times", th.idx, th.calls)
			}
			if th.kind == 'W' && th.calls > 1 {
				bad = fmt.Sprintf("thread %d invoked its function %d times", th.idx, th.calls)
			}
		}
		ctl.mu.RUnlock()
		rangeBad := ""
		ctl.mu.RLock()
		for _, th := range ctl.threads {
			if th.kind != 'I' || th.state != 'D' {
				continue
			}
			seenKeys := map[int]int{}
			for _, y := range th.yielded {
				if _, dup := seenKeys[y[0]]; dup {
					rangeBad = fmt.Sprintf("Range thread %d yielded key %d twice", th.idx, y[0])
				}
				seenKeys[y[0]] = y[1]
				okAt := false
				for idx := th.startIdx; idx <= th.endIdx; idx++ {
					if v, ok := ctl.bindingAt(y[0], idx); ok && v == y[1] {
						okAt = true
					}
				}
				if !okAt {
					rangeBad = fmt.Sprintf("Range thread %d yielded (%d,%d), a binding the key had at no moment of the iteration (invocations %d..%d)", th.idx, y[0], y[1], th.startIdx, th.endIdx)
				}
			}
			for k := range ctl.changes {
				always := true
				for idx := th.startIdx; idx <= th.endIdx; idx++ {
					if _, ok := ctl.bindingAt(k, idx); !ok {
						always = false
					}
				}
				if _, got := seenKeys[k]; always && !got {
					rangeBad = fmt.Sprintf("Range thread %d did not yield key %d, bound during the whole iteration (invocations %d..%d)", th.idx, k, th.startIdx, th.endIdx)
				}
			}
		}
		ctl.mu.RUnlock()
		if rangeBad != "" {
			sum.fail("C15", "tbl-range", "a Range yielded a key twice, missed a key bound during its whole duration, or yielded a binding the key never had meanwhile", fmt.Sprintf("%s: %s script=%s", desc, rangeBad, strings.Join(script, " ")))
			failures++
		}
		if bad != "" {
			sum.fail("C15", "tbl-compute-once", "a Compute did not invoke its function exactly once on the binding the sequential map had", fmt.Sprintf("%s: %s script=%s", desc, bad, strings.Join(script, " ")))
			failures++
		}
		if left == 0 {
			got := map[int]int{}
			dup := false
			m.Range(func(k, v int) bool {
				if _, ok := got[k]; ok {
					dup = true
				}
				got[k] = v
				return true
			})
			same := len(got) == len(ctl.spec) && !dup
			for k, v := range ctl.spec {
				if gv, ok := got[k]; !ok || gv != v {
					same = false
				}
			}
			if !same || m.Size() != len(ctl.spec) {
				sum.fail("C15", "tbl-lost-update", "at quiescence the table's content or Size is not that of a sequential map to which the functions were applied in the order they were invoked",
					fmt.Sprintf("%s range=%v size=%d sequential=%v script=%s", desc, got, m.Size(), ctl.spec, strings.Join(script, " ")))
				failures++
			}
			var ks []int
			for k := range got {
				ks = append(ks, k)
			}
			sort.Ints(ks)
			for _, k := range ks {
				t.line("Z %d %d", k, got[k])
			}
			t.line("END %d", m.Size())
		}
		sum.Cases++
		sum.Dist["stage_"+stageName]++
		sum.Dist[fmt.Sprintf("tables_published_%d", version)]++
	}
	otter.VerifSetMapHook(nil)
	sum.Distinct = len(seen)
	return sum
}
