(* C13 — Expired entries are swept and reported within one timer tick.
   Model: Wheel.v with the real constants (5 levels, 64/64/32/4/1 buckets, shifts 30/36/42/47/49),
   deadlines read at sweep time (reads may extend them), findBucket clamping an already-due
   expiration to the wheel's time (the repair of the stale-clock defect).  The implementation's
   wheel is compared bucket by bucket with the model after every operation (engine "maint").

   Proved here, for EVERY wheel reachable from the empty one by any sequence of links (Delete+Add under
   any deadline, including deadlines already behind the wheel's time: the stale-clock write), unlinks
   and sweeps at any monotone clock values (any jump: sub-tick, many revolutions, up to 2^63):
     - C13_swept_within_a_tick: a linked timer whose placement key — the later of its deadline and the
       wheel's time when it was linked — lies in a tick before the sweep time's tick, and whose current
       deadline is before the sweep time, is handed to expireNode by that sweep;
     - C13_only_due_expire: the sweep expires only timers whose current deadline is before the sweep
       time, and every other timer stays linked (nothing is lost), unless its deadline is >= now
       (then it was re-linked under that deadline);
     - C13_placement_invariant: the placement invariant itself.
   "Within one tick": key/2^30 < now/2^30 holds whenever key < now - 2^30. *)
From Otter Require Import Base Wheel WheelFacts WheelInv.

Theorem C13_swept_within_a_tick : forall ops cur now t,
  wrun_ok wheel0 ops ->
  let w := fold_left wstep ops wheel0 in
  wtime w <= now < two63 -> (forall id, 0 <= cur id < two63) ->
  tin w t -> tkey t / P0 < now / P0 -> cur (tid t) < now ->
  In (tid t) (snd (wheel_delete_expired cur w now)).
Proof. exact wheel_reachable_sweep_complete. Qed.
Print Assumptions C13_swept_within_a_tick.

Theorem C13_only_due_expire : forall ops cur now,
  wrun_ok wheel0 ops ->
  let w := fold_left wstep ops wheel0 in
  wtime w <= now < two63 -> (forall id, 0 <= cur id < two63) ->
  (forall id, In id (snd (wheel_delete_expired cur w now)) -> cur id < now) /\
  (forall t, tin w t -> In (tid t) (snd (wheel_delete_expired cur w now)) \/
                        tin (fst (wheel_delete_expired cur w now)) t \/ now <= cur (tid t)).
Proof. exact wheel_reachable_sweep_sound. Qed.
Print Assumptions C13_only_due_expire.

Theorem C13_placement_invariant : forall ops, wrun_ok wheel0 ops -> Inv2 (fold_left wstep ops wheel0).
Proof. intros ops H. exact (wheel_run_inv ops wheel0 inv2_wheel0 H). Qed.
Print Assumptions C13_placement_invariant.

(* the key a link records: the later of the deadline and the wheel's time (stale-clock writes are
   keyed by the wheel's time, so they are met by the first sweep in a later tick) *)
Theorem C13_link_key : forall w id e, Inv2 w -> 0 <= e < two63 ->
  tin (wstep w (WLink id e)) (mkTimer id (Z.max e (wtime w))).
Proof. exact link_key. Qed.
Print Assumptions C13_link_key.

(* a timer whose expiration already lies before the wheel's time is placed in level 0, in the bucket
   of the wheel's current tick *)
Theorem C13_due_timer_placement : forall w e,
  0 <= wtime w < two64 -> e < wtime w ->
  find_bucket w e = (0%nat, Z.to_nat (Z.land (Z.shiftr (wtime w) 30) 63), wtime w).
Proof. exact find_bucket_due. Qed.
Print Assumptions C13_due_timer_placement.

(* the sweep of a bucket expires exactly the timers whose current deadline lies before the wheel's
   time (each once), and re-links all the others *)
Theorem C13_sweep_decision : forall cur ts w acc,
  let '(w1, acc1) := sweep_timers cur w ts acc in
  wtime w1 = wtime w /\ acc1 = acc ++ map tid (filter (fun t => cur (tid t) <? wtime w) ts).
Proof. exact sweep_timers_spec. Qed.
Print Assumptions C13_sweep_decision.

(* non-vacuity: a reachable wheel with timers in levels 0..4 and a stale-clock link meets the
   hypotheses; concrete sweeps with the real constants *)
Example C13_hypotheses_satisfiable :
  (* timer ids are their own deadlines *)
  let cur := fun id : Z => if (0 <=? id) && (id <? 9223372036854775808) then id else 0 in
  let ops := [WSweep cur 1000000; WLink 1000001 1000001; WLink 2000000000 2000000000; WLink 70000000000 70000000000;
              WLink 5000000000000 5000000000000; WLink 200000000000000 200000000000000;
              WLink 600000000000000 600000000000000; WLink 500 500] in
  wrun_ok wheel0 ops /\
  let w := fold_left wstep ops wheel0 in
  tin w (mkTimer 500 1000000) /\ tin w (mkTimer 600000000000000 600000000000000) /\
  snd (wheel_delete_expired cur w (1000000 + 1073741824)) = [1000001; 500] /\
  snd (wheel_delete_expired cur w 700000000000000) =
    [1000001; 500; 2000000000; 70000000000; 5000000000000; 200000000000000; 600000000000000].
Proof.
  cbv zeta. split.
  - cbn [wrun_ok wop_ok]. unfold two63. repeat split; cbn [wtime wheel0]; try lia;
      match goal with |- context [if ?c then _ else _] => destruct c eqn:E end; lia.
  - split; [exists 0%nat, 0%nat; vm_compute; auto|].
    split; [exists 4%nat, 0%nat; vm_compute; auto|]. vm_compute. split; reflexivity.
Qed.
