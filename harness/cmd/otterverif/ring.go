package main

import (
	"fmt"
	"runtime"
	"strings"
	"sync"
	"sync/atomic"
	"time"

	otter "github.com/maypok86/otter/v2"
)

// Engine "ring" (C17):
//  (a) one lossy ring driven sequentially and through the hook between the tail CAS and the slot
//      store (producers parked while holding an unpublished slot, drains running meanwhile): the
//      extracted small-step model replays the same macro schedule and must agree on every status,
//      drained list, head, tail and slot occupancy;
//  (b) the striped buffer under free-running contention: property oracles on the implementation
//      (delivered subset of successfully recorded, nothing twice, capacity, complete quiescent drain,
//      stripes only grow).
func init() { engines["ring"] = runRing }

type parkCtl struct {
	mu      sync.Mutex
	parked  map[int]chan struct{} // goroutine id -> release channel
	arrived chan int
}

func runRing(seed uint64, scale int, out string, _ string) *summary {
	r := &rng{s: seed}
	sum := newSummary("ring", seed)
	t := newTrace(out)
	defer t.close()
	seen := map[string]bool{}

	// ---- (a) scheduled single ring
	nCases := 150 * scale
	for cn := 0; cn < nCases; cn++ {
		nprod := 1 + r.intn(4)
		next := 1000 * (cn + 1)
		val := func() int { next++; return next }
		first := val()
		ring := otter.VerifNewRing(first)
		t.line("N %d %d", first, nprod)
		sum.Cases++
		dump := func() {
			h, tl := ring.HeadTail()
			var sb strings.Builder
			for _, b := range ring.Slots() {
				if b {
					sb.WriteString(" 1")
				} else {
					sb.WriteString(" 0")
				}
			}
			t.line("S %d %d%s", h, tl, sb.String())
		}
		dump()
		// goroutine-local parking: the hook blocks the calling goroutine when parking is requested for it
		var parkMu sync.Mutex
		parkReq := map[int64]chan struct{}{} // goroutine token -> release
		var curTok atomic.Int64
		arrived := make(chan struct{}, 1)
		otter.VerifSetLossyHook(func(id int) {
			if id != 1 {
				return
			}
			tok := curTok.Load()
			parkMu.Lock()
			ch := parkReq[tok]
			parkMu.Unlock()
			if ch != nil {
				arrived <- struct{}{}
				<-ch
			}
		})
		type parkedAdd struct {
			release chan struct{}
			done    chan int
			val     int
		}
		parked := map[int]*parkedAdd{} // producer -> parked add
		nops := 30 + r.intn(60)
		for i := 0; i < nops; i++ {
			sum.Ops++
			g := r.intn(nprod)
			switch x := r.intn(100); {
			case x < 45:
				if parked[g] != nil {
					continue
				}
				v := val()
				curTok.Store(0)
				st := ring.Add(v)
				t.line("A %d %d %d", g, v, st)
				sum.Dist[fmt.Sprintf("add_status_%d", st)]++
				seen[fmt.Sprintf("A%d/%d", st, len(parked))] = true
			case x < 65:
				// start an add and park it between the CAS and the store
				if parked[g] != nil {
					continue
				}
				v := val()
				pa := &parkedAdd{release: make(chan struct{}), done: make(chan int, 1), val: v}
				tok := int64(i + 1)
				parkMu.Lock()
				parkReq[tok] = pa.release
				parkMu.Unlock()
				curTok.Store(tok)
				go func() { pa.done <- ring.Add(v) }()
				select {
				case <-arrived:
					parked[g] = pa
					t.line("AP %d %d", g, v)
					sum.Dist["add_parked"]++
				case st := <-pa.done:
					// did not reach the store (Full): completed
					t.line("A %d %d %d", g, v, st)
					sum.Dist[fmt.Sprintf("add_status_%d", st)]++
				}
				curTok.Store(0)
			case x < 80:
				if pa := parked[g]; pa != nil {
					close(pa.release)
					st := <-pa.done
					delete(parked, g)
					t.line("AR %d %d", g, st)
					sum.Dist["add_resumed"]++
				}
			default:
				vals := ring.DrainTo()
				var sb strings.Builder
				for _, v := range vals {
					fmt.Fprintf(&sb, " %d", v)
				}
				t.line("D %d%s", len(vals), sb.String())
				sum.Dist["drain"]++
				seen[fmt.Sprintf("D%d/%d", len(vals), len(parked))] = true
			}
			dump()
		}
		for g, pa := range parked {
			close(pa.release)
			st := <-pa.done
			t.line("AR %d %d", g, st)
			dump()
		}
		vals := ring.DrainTo()
		var sb strings.Builder
		for _, v := range vals {
			fmt.Fprintf(&sb, " %d", v)
		}
		t.line("D %d%s", len(vals), sb.String())
		dump()
		otter.VerifSetLossyHook(nil)
		if len(sum.Samples) < 2 {
			sum.Samples = append(sum.Samples, fmt.Sprintf("ring case %d: %d producers, %d macro steps", cn, nprod, nops))
		}
	}

	// ---- (b) striped buffer under contention (implementation-only oracles)
	// many short rounds on fresh buffers: attaching stripes and expanding the stripe table happen only in
	// the first moments of a buffer's life, and that is where an accepted read can be orphaned
	rounds := 700 * scale
	for rd := 0; rd < rounds; rd++ {
		maxLen := []int{1, 2, 4, 8, 16, 64, 64}[r.intn(7)]
		s := otter.VerifNewStriped(maxLen)
		G := 2 + r.intn(11)
		per := 20 + r.intn(120)
		if rd%20 == 0 {
			per = 200 + r.intn(400)
		}
		var wg sync.WaitGroup
		success := make([]map[int]bool, G)
		var delivered []int
		var dmu sync.Mutex
		stop := make(chan struct{})
		startAll := make(chan struct{})
		// a producer that has just seen an empty stripe slot is held back for a moment (hook 2 of the
		// package) while the others go on and may expand the stripe table underneath it
		var hk atomic.Uint64
		hk.Store(seed*977 + uint64(rd))
		perturb := rd%4 != 0
		otter.VerifSetLossyHook(func(id int) {
			if id != 2 || !perturb {
				return
			}
			x := hk.Add(0x9e3779b97f4a7c15)
			x ^= x >> 29
			switch x % 4 {
			case 0:
			case 1:
				runtime.Gosched()
			default:
				for i := uint64(0); i < 1+x%6; i++ {
					runtime.Gosched()
				}
				time.Sleep(time.Duration(x%30) * time.Microsecond)
			}
		})
		lastStripes := 0
		shrink := false
		overCap := false
		drainDone := make(chan struct{})
		go func() { // the single consumer
			defer close(drainDone)
			for {
				select {
				case <-stop:
					return
				default:
				}
				vs := s.DrainTo()
				dmu.Lock()
				delivered = append(delivered, vs...)
				dmu.Unlock()
				ln, _ := s.Stripes()
				if ln < lastStripes {
					shrink = true
				}
				lastStripes = ln
				// the stripe table only grows: a length read AFTER Len() bounds the table Len() walked
				held := s.Len()
				ln2, _ := s.Stripes()
				if held > 16*max(ln2, 1) {
					overCap = true
				}
			}
		}()
		for g := 0; g < G; g++ {
			success[g] = map[int]bool{}
			wg.Add(1)
			go func(g int) {
				defer wg.Done()
				<-startAll
				for i := 0; i < per; i++ {
					v := (rd*16+g)*100000 + i + 1
					if s.Add(v) == 0 {
						success[g][v] = true
					}
				}
			}(g)
		}
		close(startAll)
		wg.Wait()
		close(stop)
		<-drainDone
		otter.VerifSetLossyHook(nil)
		// quiescent: one more drain must deliver everything still recorded
		delivered = append(delivered, s.DrainTo()...)
		leftover := s.DrainTo()
		sum.Cases++
		sum.Ops += G * per
		all := map[int]bool{}
		nsucc := 0
		for g := range success {
			for v := range success[g] {
				all[v] = true
				nsucc++
			}
		}
		desc := fmt.Sprintf("striped maxLen=%d goroutines=%d adds=%d successes=%d delivered=%d", maxLen, G, G*per, nsucc, len(delivered))
		dup := map[int]int{}
		for _, v := range delivered {
			dup[v]++
			if !all[v] {
				sum.fail("C17", "delivered-unrecorded", "the buffer delivered an entry that was not successfully recorded", fmt.Sprintf("%s value=%d", desc, v))
			}
			if dup[v] == 2 {
				sum.fail("C17", "delivered-twice", "the buffer delivered an entry twice", fmt.Sprintf("%s value=%d", desc, v))
			}
		}
		if len(dup) != nsucc || len(leftover) != 0 {
			sum.fail("C17", "not-delivered-at-quiescence", "a successfully recorded entry was not delivered by a quiescent drain",
				fmt.Sprintf("%s distinctDelivered=%d leftover=%d", desc, len(dup), len(leftover)))
		}
		if shrink {
			sum.fail("C17", "ring-lost", "the stripe table shrank (a ring was lost)", desc)
		}
		if overCap {
			sum.fail("C17", "over-capacity", "the buffer held more than its fixed capacity", desc)
		}
		ln, att := s.Stripes()
		sum.Dist[fmt.Sprintf("striped_final_len_%d", ln)]++
		sum.Dist["striped_rings_attached"] += att
		sum.Dist["striped_dropped"] += G*per - nsucc
		seen[fmt.Sprintf("S%d/%d", ln, att)] = true
		if len(sum.Samples) < 4 {
			sum.Samples = append(sum.Samples, desc)
		}
	}
	sum.Distinct = len(seen)
	return sum
}
