(* Seq.v — concrete sequential model of cache_impl.go.

   The key index is an association list key -> node in which nodes whose deadline has passed
   ("dead" nodes) stay physically present until an automatic removal reported by the
   implementation (OAuto) or an overwriting operation removes them — exactly like the Go hash
   table between two maintenance runs.  Every function below is a transcription of the Go
   function named in its comment.  Executor tasks (refresh closures) are returned as [spawn]
   values: the model covers a same-goroutine executor that runs each task after the operation
   that submitted it has returned (tasks are then ordinary operations [ORunRefresh] ...).

   Not in this file: eviction/expiration *policy* (which node is removed and when) — automatic
   removals enter only as [OAuto] inputs, and are checked for legality (Maint.v / Wheel.v model
   the policies).  No proofs here. *)
From Otter Require Import Base.

(* ---------------------------------------------------------------- nodes, maps *)

Record node := mkNode { nval : Z; nweight : Z; nexp : Z; nrefr : Z }.

Definition kmap := list (Z * node).

Fixpoint lookup (k : Z) (m : kmap) : option node :=
  match m with
  | [] => None
  | (k', n) :: m' => if k' =? k then Some n else lookup k m'
  end.

Definition remove (k : Z) (m : kmap) : kmap := filter (fun p => negb (fst p =? k)) m.

(* a new node object replaces whatever the key held *)
Definition put (k : Z) (n : node) (m : kmap) : kmap := (k, n) :: remove k m.

(* in-place mutation of a node's fields (atomic stores on expiresAt / refreshableAt) *)
Definition mutate (k : Z) (f : node -> node) (m : kmap) : kmap :=
  map (fun p => if fst p =? k then (fst p, f (snd p)) else p) m.

(* ---------------------------------------------------------------- configuration *)

Record cfg := mkCfg {
  with_exp  : bool;                       (* c.withExpiration *)
  with_refr : bool;                       (* c.withRefresh *)
  weighted  : bool;                       (* c.isWeighted *)
  bounded   : bool;                       (* c.withEviction *)
  weigher     : Z -> Z -> Z;              (* key value -> weight (only consulted when weighted) *)
  exp_create  : Z -> Z -> Z -> Z;         (* key value currentDuration -> ExpireAfterCreate *)
  exp_update  : Z -> Z -> Z -> Z -> Z;    (* key value oldValue currentDuration -> ExpireAfterUpdate *)
  exp_read    : Z -> Z -> Z -> Z;         (* key value currentDuration -> ExpireAfterRead *)
  refr_create : Z -> Z -> Z -> Z;         (* RefreshAfterCreate *)
  refr_update : Z -> Z -> Z -> Z -> Z;    (* RefreshAfterUpdate *)
  refr_reload : Z -> Z -> Z -> Z -> Z;    (* RefreshAfterReload *)
  refr_fail   : Z -> Z -> Z -> Z          (* RefreshAfterReloadFailure *)
}.

Definition with_time (c : cfg) : bool := with_exp c || with_refr c.
Definition with_maint (c : cfg) : bool := bounded c || with_exp c.

(* ---------------------------------------------------------------- events, stats *)

Inductive cause := CInvalidation | CReplacement | COverflow | CExpiration.

Definition cause_eqb (a b : cause) : bool :=
  match a, b with
  | CInvalidation, CInvalidation | CReplacement, CReplacement
  | COverflow, COverflow | CExpiration, CExpiration => true
  | _, _ => false
  end.

Record event := mkEvent { ekey : Z; evalue : Z; ecause : cause }.

Record stats := mkStats {
  hits : Z; misses : Z; lsucc : Z; lfail : Z; evictions : Z; evweight : Z
}.
Definition stats0 := mkStats 0 0 0 0 0 0.
Definition st_hit  (s : stats) := mkStats (hits s + 1) (misses s) (lsucc s) (lfail s) (evictions s) (evweight s).
Definition st_miss (s : stats) := mkStats (hits s) (misses s + 1) (lsucc s) (lfail s) (evictions s) (evweight s).
Definition st_lsucc (s : stats) := mkStats (hits s) (misses s) (lsucc s + 1) (lfail s) (evictions s) (evweight s).
Definition st_lfail (s : stats) := mkStats (hits s) (misses s) (lsucc s) (lfail s + 1) (evictions s) (evweight s).
Definition st_evict (w : Z) (s : stats) := mkStats (hits s) (misses s) (lsucc s) (lfail s) (evictions s + 1) (evweight s + w).

Record cstate := mkState { cmap : kmap; cst : stats }.
Definition cstate0 := mkState [] stats0.

(* ---------------------------------------------------------------- node predicates *)

(* n.HasExpired(now): node kinds without expiration always answer false *)
Definition has_expired (c : cfg) (n : node) (now : Z) : bool := with_exp c && (nexp n <=? now).

(* n.IsFresh(now) for a node that is in the table (alive) *)
Definition is_fresh (c : cfg) (n : node) (now : Z) : bool := negb (with_refr c) || (now <? nrefr n).

(* getCause *)
Definition get_cause (c : cfg) (n : node) (now : Z) (dflt : cause) : cause :=
  if has_expired c n now then CExpiration else dflt.

(* the Entry snapshot handed to callers: (value, weight, expiresAt, refreshableAt, snapshotAt) *)
Record entry := mkEntry { en_val : Z; en_weight : Z; en_exp : Z; en_refr : Z; en_snap : Z }.
Definition node_to_entry (c : cfg) (n : node) (now : Z) : entry :=
  mkEntry (nval n) (nweight n)
          (if with_exp c then nexp n else MaxInt64)
          (if with_refr c then nrefr n else MaxInt64)
          (if with_time c then now else 0).

(* ---------------------------------------------------------------- deadline arithmetic *)

(* setExpiresAfterRead (with SaturatedAdd) *)
Definition set_exp_after_read (n : node) (now ea : Z) : node :=
  if ea <=? 0 then n else
  let cur := wraps (nexp n - now) in
  let diff := abs64 (wraps (ea - cur)) in
  if 0 <? diff then mkNode (nval n) (nweight n) (satadd now ea) (nrefr n) else n.

(* calcExpiresAtAfterRead *)
Definition calc_exp_read (c : cfg) (k : Z) (n : node) (now : Z) : node :=
  if negb (with_exp c) then n else
  set_exp_after_read n now (exp_read c k (nval n) (wraps (nexp n - now))).

(* calcExpiresAtAfterWrite (with SaturatedAdd) *)
Definition calc_exp_write (c : cfg) (k : Z) (n : node) (old : option node) (now : Z) : node :=
  if negb (with_exp c) then n else
  let cur := wraps (nexp n - now) in
  let ea := match old with
            | Some o => if has_expired c o now then exp_create c k (nval n) cur
                        else exp_update c k (nval n) (nval o) cur
            | None => exp_create c k (nval n) cur
            end in
  if (0 <? ea) && negb (cur =? ea)
  then mkNode (nval n) (nweight n) (satadd now ea) (nrefr n) else n.

(* how a write relates to an in-flight call: cl == nil, or the finishing call's flags *)
Inductive callinfo := NoCall | Call (is_refresh is_notfound has_err : bool).

(* calcRefreshableAt (with SaturatedAdd; an expired [old] counts as absent) *)
Definition calc_refr (c : cfg) (k : Z) (n : node) (old : option node) (cl : callinfo) (now : Z) : node :=
  if negb (with_refr c) then n else
  let old := match old with
             | Some o => if has_expired c o now then None else Some o
             | None => None
             end in
  let cur := wraps (nrefr n - now) in
  let ra :=
    match cl, old with
    | Call true nf he, Some o =>
        if nf then None
        else if he then Some (refr_fail c k (nval n) cur)
        else Some (refr_reload c k (nval n) (nval o) cur)
    | _, Some o => Some (refr_update c k (nval n) (nval o) cur)
    | _, None => Some (refr_create c k (nval n) cur)
    end in
  match ra with
  | None => n
  | Some ra => if (0 <? ra) && negb (cur =? ra)
               then mkNode (nval n) (nweight n) (nexp n) (satadd now ra) else n
  end.

(* newNode *)
Definition new_node (c : cfg) (k v : Z) (old : option node) : node :=
  mkNode v
         (if weighted c then weigher c k v else 1)
         (match old with Some o => if with_exp c then nexp o else MaxInt64 | None => MaxInt64 end)
         (match old with Some o => if with_refr c then nrefr o else MaxInt64 | None => MaxInt64 end).

(* atomicSet: the node installed and the atomic deletion event for the node it replaces *)
Definition atomic_set (c : cfg) (k v : Z) (old : option node) (cl : callinfo) (now : Z)
  : node * list event :=
  let n := new_node c k v old in
  let n := calc_exp_write c k n old now in
  let n := calc_refr c k n old cl now in
  (n, match old with
      | Some o => [mkEvent k (nval o) (get_cause c o now CReplacement)]
      | None => []
      end).

(* atomicDelete *)
Definition atomic_delete (c : cfg) (k : Z) (old : option node) (now : Z) : list event :=
  match old with
  | Some o => [mkEvent k (nval o) (get_cause c o now CInvalidation)]
  | None => []
  end.

(* ---------------------------------------------------------------- reads *)

Definition upd_map (s : cstate) (m : kmap) : cstate := mkState m (cst s).
Definition upd_st (s : cstate) (f : stats -> stats) : cstate := mkState (cmap s) (f (cst s)).

(* getNode: lookup + expiry filter + stats + read extension (afterRead) *)
Definition get_node (c : cfg) (s : cstate) (k now : Z) : cstate * option node :=
  match lookup k (cmap s) with
  | None => (upd_st s st_miss, None)
  | Some n =>
      if has_expired c n now then (upd_st s st_miss, None)
      else let n' := calc_exp_read c k n now in
           (upd_st (upd_map s (mutate k (fun _ => n') (cmap s))) st_hit, Some n')
  end.

(* getNodeQuietly *)
Definition get_node_quietly (c : cfg) (s : cstate) (k now : Z) : option node :=
  match lookup k (cmap s) with
  | None => None
  | Some n => if has_expired c n now then None else Some n
  end.

(* ---------------------------------------------------------------- operations *)

Inductive opcode := OpCancel | OpWrite | OpInvalidate | OpInvalid.

(* what a user callback did *)
Inductive remap_res := RPanic | RRes (v : Z) (o : opcode).

(* loader outcomes *)
Inductive outcome := LValue (v : Z) | LError (v : Z) | LNotFound | LPanic.

(* bulk loader outcome: the returned map (assoc list, distinct keys), or error / panic *)
Inductive bulk_outcome := BMap (res : list (Z * Z)) | BError | BPanic.

(* executor submissions *)
Inductive spawn :=
| SpRefresh (k : Z) (old : option Z)                 (* refreshKey: Reload(k, old) or Load(k) *)
| SpBulkRefresh (rks : list (Z * option Z)).         (* bulkRefreshKeys *)

Inductive op :=
| OSet (k v now : Z)
| OSetIfAbsent (k v now : Z)
| OGetIfPresent (k now : Z)
| OGetEntry (k now : Z)
| OGetEntryQuietly (k now : Z)
| OCompute (k : Z) (f : bool -> Z -> remap_res) (now : Z)          (* found oldValue *)
| OComputeIfAbsent (k : Z) (f : unit -> remap_res) (now : Z)       (* RRes v OpWrite | RRes _ OpCancel | RPanic *)
| OComputeIfPresent (k : Z) (f : Z -> remap_res) (now : Z)
| OInvalidate (k now : Z)
| OInvalidateAll (now : Z)
| OSetExpiresAfter (k d now : Z)
| OSetRefreshableAfter (k d now : Z)
| OGet (k : Z) (lo : outcome) (now now2 : Z)       (* now2: clock when the load finishes *)
| OBulkGet (ks : list Z) (lo : bulk_outcome) (now now2 : Z)
| ORefresh (k now : Z)
| OBulkRefresh (ks : list Z) (now : Z)
| ORunRefresh (k : Z) (old : option Z) (lo : outcome) (now : Z)
| ORunBulkRefresh (rks : list (Z * option Z)) (lo_load lo_reload : bulk_outcome) (now : Z)
| OIter (now : Z)
| OAuto (k v : Z) (cs : cause) (now : Z).

(* results *)
Inductive ret :=
| RNone                                   (* no result / absent *)
| RVal (v : Z) (b : bool)                 (* (value, flag) of Set/SetIfAbsent/Invalidate/Compute*/GetIfPresent *)
| REntry (e : entry)
| RLoad (v : Z) (err : Z)                 (* Get: err 0 nil, 1 loader error, 2 ErrNotFound *)
| RBulk (res : list (Z * Z)) (err : Z)    (* BulkGet result map (unordered) + error class *)
| RIter (es : list (Z * Z))               (* All(): (key, value) pairs (unordered) *)
| RChan (nonnil : bool)                   (* Refresh/BulkRefresh: whether a channel was returned *)
| RRefreshes (rs : list (Z * Z * Z))      (* refresh results (key, value, error class), unordered *)
| RPanicked                               (* the call panicked *)
| RBadAuto.                               (* an automatic removal that is not legal in this state *)

(* what the user callbacks were called with, for the correspondence check *)
Inductive cbcall :=
| CbRemap (found : bool) (old : Z)
| CbLoad (k : Z)
| CbReload (k old : Z)
| CbBulkLoad (ks : list Z)
| CbBulkReload (ks olds : list Z).

Record result := mkResult {
  r_ret : ret;
  r_events : list event;        (* OnAtomicDeletion, in order *)
  r_cb : list cbcall;           (* callbacks invoked, in order *)
  r_spawn : list spawn          (* executor submissions, in order *)
}.

Definition res0 (r : ret) := mkResult r [] [] [].

(* c.set *)
Definition do_set (c : cfg) (s : cstate) (k v : Z) (only_if_absent : bool) (now : Z) : cstate * result :=
  let old := lookup k (cmap s) in
  let old_live := match old with Some o => negb (has_expired c o now) | None => false end in
  if only_if_absent && old_live then
    match old with
    | Some o => let o' := calc_exp_read c k o now in
                (upd_map s (mutate k (fun _ => o') (cmap s)), res0 (RVal (nval o') false))
    | None => (s, res0 RNone)
    end
  else
    let '(n, evs) := atomic_set c k v old NoCall now in
    let s' := upd_map s (put k n (cmap s)) in
    let r := if only_if_absent then RVal v true
             else match old with
                  | Some o => if old_live then RVal (nval o) false else RVal v true
                  | None => RVal v true
                  end in
    (s', mkResult r evs [] []).

(* c.doCompute *)
Definition do_compute (c : cfg) (s : cstate) (k : Z) (f : bool -> Z -> remap_res) (now : Z) (record_stats : bool)
  : cstate * result :=
  let old := lookup k (cmap s) in
  let found := match old with Some o => negb (has_expired c o now) | None => false end in
  let oldv := match old with Some o => if found then nval o else 0 | None => 0 end in
  let cb := [CbRemap found oldv] in
  let stat (s : cstate) := if record_stats then upd_st s (if found then st_hit else st_miss) else s in
  match f found oldv with
  | RPanic => (s, mkResult RPanicked [] cb [])
  | RRes _ OpInvalid => (s, mkResult RPanicked [] cb [])
  | RRes _ OpCancel =>
      match old with
      | Some o => if has_expired c o now
                  then (stat (upd_map s (remove k (cmap s))), mkResult (RVal 0 false) (atomic_delete c k old now) cb [])
                  else (stat s, mkResult (RVal (nval o) true) [] cb [])
      | None => (stat s, mkResult (RVal 0 false) [] cb [])
      end
  | RRes v OpWrite =>
      let '(n, evs) := atomic_set c k v old NoCall now in
      (stat (upd_map s (put k n (cmap s))), mkResult (RVal (nval n) true) evs cb [])
  | RRes _ OpInvalidate =>
      (stat (upd_map s (remove k (cmap s))), mkResult (RVal 0 false) (atomic_delete c k old now) cb [])
  end.

(* c.Invalidate *)
Definition do_invalidate (c : cfg) (s : cstate) (k now : Z) : cstate * result :=
  let old := lookup k (cmap s) in
  let r := match old with
           | Some o => if has_expired c o now then RVal 0 false else RVal (nval o) true
           | None => RVal 0 false
           end in
  (upd_map s (remove k (cmap s)), mkResult r (atomic_delete c k old now) [] []).

(* c.SetExpiresAfter *)
Definition do_set_expires_after (c : cfg) (s : cstate) (k d now : Z) : cstate :=
  if negb (with_exp c) || (d <=? 0) then s else
  match lookup k (cmap s) with
  | None => s
  | Some n => if has_expired c n now then s
              else upd_map s (mutate k (fun n => set_exp_after_read n now d) (cmap s))
  end.

(* c.SetRefreshableAfter *)
Definition do_set_refreshable_after (c : cfg) (s : cstate) (k d now : Z) : cstate :=
  if negb (with_refr c) || (d <=? 0) then s else
  match lookup k (cmap s) with
  | None => s
  | Some n =>
      let cur := wraps (nrefr n - now) in
      if negb (cur =? d)
      then upd_map s (mutate k (fun n => mkNode (nval n) (nweight n) (nexp n) (satadd now d)) (cmap s))
      else s
  end.

(* afterDeleteCall for a call that is still the registered one (isCorrectCall = true), or a
   volunteered extra key of a bulk load (isFake).  [oc]: the call's value/error flags. *)
Definition finish_call (c : cfg) (s : cstate) (k : Z) (oc : outcome) (is_refresh : bool) (now : Z)
  : cstate * list event :=
  let old := lookup k (cmap s) in
  match oc with
  | LNotFound => (upd_map s (remove k (cmap s)), atomic_delete c k old now)
  | LError _ | LPanic =>
      match old with
      | Some o => if is_refresh
                  then (upd_map s (mutate k (fun o => calc_refr c k o (Some o) (Call true false true) now) (cmap s)), [])
                  else (s, [])
      | None => (s, [])
      end
  | LValue v =>
      let '(n, evs) := atomic_set c k v old (Call is_refresh false false) now in
      (upd_map s (put k n (cmap s)), evs)
  end.

(* wrapLoad's statistics *)
Definition load_stat (oc_is_failure : bool) (s : cstate) : cstate :=
  upd_st s (if oc_is_failure then st_lfail else st_lsucc).

Definition outcome_failed (oc : outcome) : bool :=
  match oc with LValue _ | LNotFound => false | LError _ | LPanic => true end.

(* refreshKey's closure / the miss path of Get: one loader invocation + afterDeleteCall *)
Definition run_load (c : cfg) (s : cstate) (k : Z) (old : option Z) (oc : outcome) (is_refresh : bool) (now : Z)
  : cstate * list event * list cbcall :=
  let cb := match old with Some ov => [CbReload k ov] | None => [CbLoad k] end in
  let '(s1, evs) := finish_call c s k oc is_refresh now in
  (load_stat (outcome_failed oc) s1, evs, cb).

(* c.Get *)
Definition load_ret (oc : outcome) : ret :=
  match oc with
  | LValue v => RLoad v 0
  | LError v => RLoad v 1
  | LNotFound => RLoad 0 2
  | LPanic => RPanicked
  end.

Definition do_get (c : cfg) (s : cstate) (k : Z) (oc : outcome) (now now2 : Z) : cstate * result :=
  let '(s1, got) := get_node c s k now in
  match got with
  | Some n =>
      (s1, mkResult (RLoad (nval n) 0) [] []
                    (if is_fresh c n now then [] else [SpRefresh k (Some (nval n))]))
  | None =>
      let '(s2, evs, cb) := run_load c s1 k None oc false now2 in
      (s2, mkResult (load_ret oc) evs cb [])
  end.

(* c.Refresh *)
Definition do_refresh (c : cfg) (s : cstate) (k now : Z) : cstate * result :=
  if negb (with_refr c) then (s, res0 (RChan false)) else
  let old := match get_node_quietly c s k now with Some n => Some (nval n) | None => None end in
  (s, mkResult (RChan true) [] [] [SpRefresh k old]).

(* the closure submitted by refreshKey *)
Definition do_run_refresh (c : cfg) (s : cstate) (k : Z) (old : option Z) (oc : outcome) (now : Z)
  : cstate * result :=
  let '(s1, evs, cb) := run_load c s k old oc true now in
  (s1, mkResult (load_ret oc) evs cb []).

(* ---- bulk *)

Fixpoint assoc (k : Z) (l : list (Z * Z)) : option Z :=
  match l with
  | [] => None
  | (k', v) :: l' => if k' =? k then Some v else assoc k l'
  end.

Definition memZ (k : Z) (l : list Z) : bool := existsb (Z.eqb k) l.

Fixpoint dedup (l : list Z) (seen : list Z) : list Z :=
  match l with
  | [] => []
  | k :: l' => if memZ k seen then dedup l' seen else k :: dedup l' (k :: seen)
  end.

(* BulkGet phase 1: per distinct key getNode; returns hits, stale hits, misses *)
Fixpoint bulk_read (c : cfg) (s : cstate) (ks : list Z) (now : Z)
  : cstate * list (Z * Z) * list (Z * option Z) * list Z :=
  match ks with
  | [] => (s, [], [], [])
  | k :: ks' =>
      let '(s1, got) := get_node c s k now in
      let '(s2, hits, stale, miss) := bulk_read c s1 ks' now in
      match got with
      | Some n => (s2, (k, nval n) :: hits,
                   (if is_fresh c n now then stale else (k, Some (nval n)) :: stale), miss)
      | None => (s2, hits, stale, k :: miss)
      end
  end.

(* doBulkCall + afterDeleteCall for every call and every volunteered extra key *)
Fixpoint finish_calls (c : cfg) (s : cstate) (ks : list Z) (res : option (list (Z * Z))) (is_refresh : bool) (now : Z)
  : cstate * list event :=
  match ks with
  | [] => (s, [])
  | k :: ks' =>
      let oc := match res with
                | None => LError 0
                | Some m => match assoc k m with Some v => LValue v | None => LNotFound end
                end in
      let '(s1, e1) := finish_call c s k oc is_refresh now in
      let '(s2, e2) := finish_calls c s1 ks' res is_refresh now in
      (s2, e1 ++ e2)
  end.

Definition extras (ks : list Z) (m : list (Z * Z)) : list (Z * Z) :=
  filter (fun p => negb (memZ (fst p) ks)) m.

Fixpoint install_extras (c : cfg) (s : cstate) (xs : list (Z * Z)) (is_refresh : bool) (now : Z)
  : cstate * list event :=
  match xs with
  | [] => (s, [])
  | (k, v) :: xs' =>
      let '(s1, e1) := finish_call c s k (LValue v) is_refresh now in
      let '(s2, e2) := install_extras c s1 xs' is_refresh now in
      (s2, e1 ++ e2)
  end.

(* one bulk loader invocation for the calls [ks]; returns state, events, failed? *)
Definition run_bulk (c : cfg) (s : cstate) (ks : list Z) (bo : bulk_outcome) (is_refresh : bool) (now : Z)
  : cstate * list event :=
  match bo with
  | BMap m =>
      let '(s1, e1) := finish_calls c s ks (Some m) is_refresh now in
      let '(s2, e2) := install_extras c s1 (extras ks m) is_refresh now in
      (load_stat false s2, e1 ++ e2)
  | BError | BPanic =>
      let '(s1, e1) := finish_calls c s ks None is_refresh now in
      (load_stat true s1, e1)
  end.

Definition loaded_pairs (ks : list Z) (m : list (Z * Z)) : list (Z * Z) :=
  flat_map (fun k => match assoc k m with Some v => [(k, v)] | None => [] end) ks.

(* c.BulkGet *)
Definition do_bulk_get (c : cfg) (s : cstate) (ks : list Z) (bo : bulk_outcome) (now now2 : Z) : cstate * result :=
  let '(s1, hits, stale, miss) := bulk_read c s (dedup ks []) now in
  let sp := match stale with [] => [] | _ => [SpBulkRefresh stale] end in
  match miss with
  | [] => (s1, mkResult (RBulk hits 0) [] [] sp)
  | _ =>
      let '(s2, evs) := run_bulk c s1 miss bo false now2 in
      let cb := [CbBulkLoad miss] in
      match bo with
      | BMap m => (s2, mkResult (RBulk (hits ++ loaded_pairs miss m) 0) evs cb sp)
      | BError => (s2, mkResult (RBulk hits 1) evs cb sp)
      | BPanic => (s2, mkResult RPanicked evs cb sp)
      end
  end.

(* c.BulkRefresh *)
Definition do_bulk_refresh (c : cfg) (s : cstate) (ks : list Z) (now : Z) : cstate * result :=
  if negb (with_refr c) then (s, res0 (RChan false)) else
  let rks := map (fun k => (k, match get_node_quietly c s k now with Some n => Some (nval n) | None => None end))
                 (dedup ks []) in
  (s, mkResult (RChan true) [] [] (match rks with [] => [] | _ => [SpBulkRefresh rks] end)).

Definition refresh_results (ks : list Z) (bo : bulk_outcome) : list (Z * Z * Z) :=
  match bo with
  | BMap m => map (fun k => (k, match assoc k m with Some v => v | None => 0 end, 0)) ks
              ++ map (fun p => (fst p, snd p, 0)) (extras ks m)
  | BError | BPanic => map (fun k => (k, 0, 1)) ks
  end.

(* the closure submitted by bulkRefreshKeys *)
Definition do_run_bulk_refresh (c : cfg) (s : cstate) (rks : list (Z * option Z))
           (bo_load bo_reload : bulk_outcome) (now : Z) : cstate * result :=
  let loads := map fst (filter (fun p => match snd p with None => true | Some _ => false end) rks) in
  let reloads := filter (fun p => match snd p with None => false | Some _ => true end) rks in
  let rkeys := map fst reloads in
  let rolds := map (fun p => match snd p with Some v => v | None => 0 end) reloads in
  let '(s1, e1, cb1, panicked) :=
    match loads with
    | [] => (s, [], [], false)
    | _ => let '(s1, e1) := run_bulk c s loads bo_load true now in
           (s1, e1, [CbBulkLoad loads], match bo_load with BPanic => true | _ => false end)
    end in
  if panicked then (s1, mkResult RPanicked e1 cb1 []) else
  match rkeys with
  | [] => (s1, mkResult (RRefreshes (match loads with [] => [] | _ => refresh_results loads bo_load end)) e1 cb1 [])
  | _ =>
      let '(s2, e2) := run_bulk c s1 rkeys bo_reload true now in
      let cb := cb1 ++ [CbBulkReload rkeys rolds] in
      match bo_reload with
      | BPanic => (s2, mkResult RPanicked (e1 ++ e2) cb [])
      | _ => (s2, mkResult (RRefreshes ((match loads with [] => [] | _ => refresh_results loads bo_load end)
                                          ++ refresh_results rkeys bo_reload)) (e1 ++ e2) cb [])
      end
  end.

(* ---- iteration, InvalidateAll, automatic removals *)

Definition live_pairs (c : cfg) (m : kmap) (now : Z) : list (Z * Z) :=
  map (fun p => (fst p, nval (snd p))) (filter (fun p => negb (has_expired c (snd p) now)) m).

Definition do_invalidate_all (c : cfg) (s : cstate) (now : Z) : cstate * result :=
  (upd_map s [],
   mkResult RNone (map (fun p => mkEvent (fst p) (nval (snd p)) (get_cause c (snd p) now CInvalidation)) (cmap s)) [] []).

(* evictNode for a node the policies selected; legal only if that very node is in the table,
   and: Overflow needs a size bound and an unexpired... (cause is Expiration whenever the deadline
   has passed at the sweep's clock), Expiration needs a passed deadline. *)
Definition do_auto (c : cfg) (s : cstate) (k v : Z) (cs : cause) (now : Z) : cstate * result :=
  match lookup k (cmap s) with
  | Some n =>
      let legal :=
        (nval n =? v) &&
        match cs with
        | COverflow => bounded c
        | CExpiration => has_expired c n now
        | _ => false
        end in
      if legal
      then (upd_st (upd_map s (remove k (cmap s))) (st_evict (nweight n)), mkResult RNone [mkEvent k v cs] [] [])
      else (s, res0 RBadAuto)
  | None => (s, res0 RBadAuto)
  end.

(* ---------------------------------------------------------------- the step function *)

Definition step (c : cfg) (s : cstate) (o : op) : cstate * result :=
  match o with
  | OSet k v now => do_set c s k v false now
  | OSetIfAbsent k v now => do_set c s k v true now
  | OGetIfPresent k now =>
      let '(s1, got) := get_node c s k now in
      (s1, res0 (match got with Some n => RVal (nval n) true | None => RVal 0 false end))
  | OGetEntry k now =>
      let '(s1, got) := get_node c s k now in
      (s1, res0 (match got with Some n => REntry (node_to_entry c n now) | None => RNone end))
  | OGetEntryQuietly k now =>
      (s, res0 (match get_node_quietly c s k now with Some n => REntry (node_to_entry c n now) | None => RNone end))
  | OCompute k f now => do_compute c s k f now true
  | OComputeIfAbsent k f now =>
      let '(s1, got) := get_node c s k now in
      match got with
      | Some n => (s1, res0 (RVal (nval n) true))
      | None => do_compute c s1 k (fun found old => if found then RRes old OpCancel else f tt) now false
      end
  | OComputeIfPresent k f now =>
      let '(s1, got) := get_node c s k now in
      match got with
      | None => (s1, res0 (RVal 0 false))
      | Some _ => do_compute c s1 k (fun found old => if found then f old else RRes 0 OpCancel) now false
      end
  | OInvalidate k now => do_invalidate c s k now
  | OInvalidateAll now => do_invalidate_all c s now
  | OSetExpiresAfter k d now => (do_set_expires_after c s k d now, res0 RNone)
  | OSetRefreshableAfter k d now => (do_set_refreshable_after c s k d now, res0 RNone)
  | OGet k oc now now2 => do_get c s k oc now now2
  | OBulkGet ks bo now now2 => do_bulk_get c s ks bo now now2
  | ORefresh k now => do_refresh c s k now
  | OBulkRefresh ks now => do_bulk_refresh c s ks now
  | ORunRefresh k old oc now => do_run_refresh c s k old oc now
  | ORunBulkRefresh rks bl br now => do_run_bulk_refresh c s rks bl br now
  | OIter now => (s, res0 (RIter (live_pairs c (cmap s) now)))
  | OAuto k v cs now => do_auto c s k v cs now
  end.

Fixpoint run (c : cfg) (s : cstate) (ops : list op) : cstate * list result :=
  match ops with
  | [] => (s, [])
  | o :: ops' => let '(s1, r) := step c s o in
                 let '(s2, rs) := run c s1 ops' in (s2, r :: rs)
  end.
