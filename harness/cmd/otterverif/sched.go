package main

// Engine "sched" — the drain-status protocol of the real cache executed one macro step at a time
// under schedules chosen by the harness, for the extracted small-step model (theories/Drain.v)
// to replay.
//
// Every goroutine that takes part (writers, readers of an existing entry, explicit CleanUp callers, and the maintenance tasks
// the cache hands to its executor) parks at the protocol's hook points
//
//	3  scheduleAfterWrite: before the status load        (model pc WLoad)
//	8  scheduleAfterWrite: after the status load         (WCasReq / SLoad / WCasP2R / Done)
//	10 scheduleDrainBuffers: after the first status test (STry)
//	4  scheduleDrainBuffers: after TryLock succeeded     (SLoad2)
//	9  scheduleDrainBuffers: after the executor call     (SCas)
//	5  drainBuffers: start of the task                   (DTry)
//	1  maintenance: start                                (MStore)
//	2  maintenance: before the final status transition   (MLoad)
//	6  rescheduleCleanUpIfIncomplete: start              (RLoad)
//
// and exactly one of them is resumed at a time; it runs to its next hook point, to the end of its
// call, or until it blocks on the eviction lock (decided from the goroutine's wait reason in the
// runtime's stack dump, not from timing).  After every macro step the drain status, the write
// buffer size, whether the eviction lock is free and every thread's position are written to the
// trace; the replayer executes the same macro steps on the model and compares.  The executor is
// the harness's: one goroutine per task as the default executor does, plus an end-of-task signal;
// VerifTreatExecutorAsDefault keeps the default executor's rescheduling protocol.
//
// Implementation-only oracle (C14): when every thread has finished, the status is idle, the
// write buffer is empty and the lock is free — with no further cache call.

import (
	"bytes"
	"fmt"
	"runtime"
	"strconv"
	"strings"
	"sync"
	"sync/atomic"
	"time"

	"github.com/maypok86/otter/v2"
)

func init() { engines["sched"] = runSched }

// lockWait tells whether a goroutine's wait reason (from the runtime's stack dump) is "blocked in
// sync.Mutex.Lock".  Nothing looser: "semacquire" is also the reason of a goroutine waiting for the
// world semaphore (a stack dump or a GC start in progress), which says nothing about the locks of the
// code under test; a runtime that words the reason differently fails waitReasonWorks and the engines
// that depend on it are skipped.
func lockWait(st string) bool {
	return strings.HasPrefix(st, "sync.Mutex.Lock")
}

// spinLock protects the controllers' tables.  It is not a sync.Mutex (nor a sync.RWMutex, whose writers
// queue on one): a goroutine of the code under test that waits for the controller must never show the
// wait reason by which the engines recognise "blocked on a lock of the code under test".
type spinLock struct{ v atomic.Int32 }

func (l *spinLock) Lock() {
	for !l.v.CompareAndSwap(0, 1) {
		runtime.Gosched()
	}
}
func (l *spinLock) Unlock()  { l.v.Store(0) }
func (l *spinLock) RLock()   { l.Lock() }
func (l *spinLock) RUnlock() { l.Unlock() }

// waitReasonWorks checks on a mutex of the harness's own that a goroutine blocked in Lock is reported as such
// by this Go runtime (the engine's only dependence on the runtime's wording).
func waitReasonWorks() bool {
	var mu sync.Mutex
	mu.Lock()
	ids := make(chan int64, 1)
	done := make(chan struct{})
	go func() {
		ids <- goid()
		mu.Lock()
		mu.Unlock()
		close(done)
	}()
	id := <-ids
	ok := false
	for i := 0; i < 2000 && !ok; i++ {
		if st, found := goroutineStates()[id]; found && lockWait(st) {
			ok = true
		}
		time.Sleep(50 * time.Microsecond)
	}
	mu.Unlock()
	<-done
	return ok
}

func goid() int64 {
	var buf [64]byte
	n := runtime.Stack(buf[:], false)
	// "goroutine 123 [running]:"
	f := bytes.Fields(buf[:n])
	if len(f) < 2 {
		return -1
	}
	id, _ := strconv.ParseInt(string(f[1]), 10, 64)
	return id
}

// goroutineStates returns the wait reason of every goroutine (id -> "running", "chan receive", "sync.Mutex.Lock", ...).
func goroutineStates() map[int64]string {
	buf := make([]byte, 1<<18)
	for {
		n := runtime.Stack(buf, true)
		if n < len(buf) {
			buf = buf[:n]
			break
		}
		buf = make([]byte, 2*len(buf))
	}
	out := map[int64]string{}
	for _, line := range strings.Split(string(buf), "\n") {
		if !strings.HasPrefix(line, "goroutine ") {
			continue
		}
		rest := line[len("goroutine "):]
		sp := strings.IndexByte(rest, ' ')
		if sp < 0 {
			continue
		}
		id, err := strconv.ParseInt(rest[:sp], 10, 64)
		if err != nil {
			continue
		}
		lb := strings.IndexByte(rest, '[')
		rb := strings.IndexAny(rest, ",]")
		if lb < 0 || rb < lb {
			continue
		}
		out[id] = rest[lb+1 : rb]
	}
	return out
}

type schedThread struct {
	idx     int
	kind    byte // 'W' writer, 'C' CleanUp caller, 'T' maintenance task, 'R' reader, 'X' SetMaximum, 'G' GetMaximum, 'I' InvalidateAll
	goid    int64
	release chan struct{}
	state   byte // 'R' running, 'P' parked at hook, 'B' blocked on the eviction lock, 'D' done
	hook    int
}

type schedEvent struct {
	idx  int
	kind byte // 'A' arrival at hook, 'F' finished
	hook int
}

type schedCtl struct {
	mu      spinLock // not a sync.Mutex: its wait reason must differ from the eviction lock's
	threads []*schedThread
	byGoid  map[int64]*schedThread
	ev      chan schedEvent
	c       *otter.Cache[int, int]
}

func (s *schedCtl) register(kind byte) *schedThread {
	s.mu.Lock()
	defer s.mu.Unlock()
	th := &schedThread{idx: len(s.threads), kind: kind, release: make(chan struct{}, 1), state: 'R'}
	s.threads = append(s.threads, th)
	return th
}

func (s *schedCtl) bind(th *schedThread) {
	g := goid()
	s.mu.Lock()
	th.goid = g
	s.byGoid[g] = th
	s.mu.Unlock()
}

func (s *schedCtl) hook(id int) {
	switch id {
	case 1, 2, 3, 4, 5, 6, 8, 9, 10:
	default:
		return
	}
	g := goid()
	s.mu.Lock()
	th := s.byGoid[g]
	s.mu.Unlock()
	if th == nil {
		return
	}
	s.ev <- schedEvent{th.idx, 'A', id}
	<-th.release
}

// settle waits until no controlled goroutine is running: each one is parked at a hook, has finished,
// or is blocked on the eviction lock (and the lock is not free).  It returns false on a hang.
func (s *schedCtl) settle() bool {
	deadline := time.Now().Add(8 * time.Second)
	for {
		// absorb events
		for {
			select {
			case e := <-s.ev:
				s.mu.Lock()
				th := s.threads[e.idx]
				if e.kind == 'A' {
					th.state, th.hook = 'P', e.hook
				} else {
					th.state = 'D'
				}
				s.mu.Unlock()
				continue
			default:
			}
			break
		}
		s.mu.Lock()
		var running []*schedThread
		blocked := 0
		for _, th := range s.threads {
			switch th.state {
			case 'R':
				running = append(running, th)
			case 'B':
				blocked++
			}
		}
		s.mu.Unlock()
		if len(running) == 0 {
			if blocked == 0 {
				return true
			}
			if time.Now().After(deadline) {
				return false
			}
			if otter.VerifEvictionLockFree(s.c) {
				// nobody holds the lock: a waiter is being woken (or is about to be) and will arrive at hook 1
				s.mu.Lock()
				for _, th := range s.threads {
					if th.state == 'B' {
						th.state = 'R'
					}
				}
				s.mu.Unlock()
				runtime.Gosched()
				continue
			}
			// the lock is held: by a parked thread (the waiters stay blocked), or by a waiter that has
			// just acquired it and is on its way to hook 1 (its wait reason is no longer the mutex)
			states := goroutineStates()
			changed := false
			s.mu.Lock()
			for _, th := range s.threads {
				if th.state == 'B' {
					if st, ok := states[th.goid]; !ok || !lockWait(st) {
						th.state = 'R'
						changed = true
					}
				}
			}
			s.mu.Unlock()
			if changed || len(s.ev) > 0 {
				continue
			}
			return true
		}
		if time.Now().After(deadline) {
			return false
		}
		// is a running goroutine in fact blocked on the lock?
		states := goroutineStates()
		progressed := false
		s.mu.Lock()
		for _, th := range running {
			if th.goid == 0 {
				continue
			}
			if st, ok := states[th.goid]; ok && lockWait(st) && len(s.ev) == 0 {
				th.state = 'B'
				progressed = true
			}
		}
		s.mu.Unlock()
		if !progressed {
			time.Sleep(20 * time.Microsecond)
		}
	}
}

func (s *schedCtl) observe() string {
	ds, wb := otter.VerifDrainState(s.c)
	free := 0
	if otter.VerifEvictionLockFree(s.c) {
		free = 1
	}
	var sb strings.Builder
	fmt.Fprintf(&sb, "O %d %d %d", ds, wb, free)
	s.mu.Lock()
	for _, th := range s.threads {
		switch th.state {
		case 'P':
			fmt.Fprintf(&sb, " P%d", th.hook)
		case 'B':
			sb.WriteString(" B")
		case 'D':
			sb.WriteString(" D")
		default:
			sb.WriteString(" R")
		}
	}
	s.mu.Unlock()
	return sb.String()
}

func runSched(seed uint64, scale int, out string, _ string) *summary {
	r := &rng{s: seed}
	sum := newSummary("sched", seed)
	t := newTrace(out)
	defer t.close()
	seen := map[string]bool{}
	// the lock reading used below must behave as expected on this Go runtime
	var probe sync.Mutex
	okProbe := !otter.VerifMutexLocked(&probe)
	probe.Lock()
	okProbe = okProbe && otter.VerifMutexLocked(&probe)
	probe.Unlock()
	if !okProbe {
		sum.Notes["skipped"] = "the state word of sync.Mutex is not where VerifMutexLocked reads it on this Go runtime"
		return sum
	}
	if !waitReasonWorks() {
		// cannot tell "blocked on the eviction lock" from "still running" on this runtime: run nothing rather
		// than guess (the drain engine's oracles still run)
		sum.Notes["skipped"] = "the Go runtime does not report sync.Mutex.Lock as a goroutine wait reason"
		return sum
	}
	schedules := 150 * scale
	failures := 0
	// scripted schedules run first.  (1) a spawner stays parked before its token CAS while the task it
	// spawned inherits the lock, is told to reschedule, becomes a spawner itself and finishes; the
	// second task then holds the lock when the first spawner finally fails its CAS: it must not unlock.
	// (2) a second writer holds the lock between TryLock and its status re-check while the task of the
	// first finds the lock taken and its token gone: the task must wait for the lock.
	scripts := [][]string{
		strings.Fields("NW S0 S0 S0 S0 S1 NW S1 S2 S2 S1 S1 S1 S1 S1 S3 S0 S3 S3 S3 S3"),
		strings.Fields("NW S0 S0 NW S1 S1 S0 S0 S0 S1 S2 S1 S2 S2 S2"),
	}
	for sc := 0; sc < schedules+len(scripts) && failures < 4; sc++ {
		sr := &rng{s: r.next()}
		maxW := 1 + sr.intn(3)
		maxC := sr.intn(3)
		if sc%7 == 0 {
			maxW, maxC = 2, 0
		}
		// other holders of the eviction lock: X = SetMaximum (the CleanUp caller's program), G = GetMaximum
		// (maintenance only when the status is "required"), I = InvalidateAll (its own drain of the write buffer)
		maxX, maxG, maxI := 0, 0, 0
		if sc >= len(scripts) && sc%3 == 1 {
			maxX, maxG, maxI = sr.intn(2), sr.intn(3), sr.intn(2)
		}
		nX, nG, nI := 0, 0, 0
		var fixed []string
		if sc < len(scripts) {
			fixed = scripts[sc]
			maxW, maxC = 9, 9
		}
		ctl := &schedCtl{byGoid: map[int64]*schedThread{}, ev: make(chan schedEvent, 1024)}
		otter.VerifHook = nil
		var warm atomic.Bool
		var warmWG sync.WaitGroup
		warm.Store(true)
		c := otter.Must(&otter.Options[int, int]{
			MaximumSize: 64,
			Executor: func(fn func()) {
				if warm.Load() {
					// warm-up (before the schedule starts): run the task like the default executor, unobserved
					warmWG.Add(1)
					go func() { defer warmWG.Done(); fn() }()
					return
				}
				th := ctl.register('T')
				go func() {
					ctl.bind(th)
					fn()
					ctl.ev <- schedEvent{th.idx, 'F', 0}
				}()
			},
			Logger: &otter.NoopLogger{},
		})
		otter.VerifTreatExecutorAsDefault(c)
		ctl.c = c
		// one entry for the readers to hit, written before the schedule starts; the protocol is idle again
		// (status idle, buffer empty, lock free) when the warm-up task has ended
		c.Set(0, 0)
		warmWG.Wait()
		for i := 0; i < 2000; i++ {
			if ds, wb := otter.VerifDrainState(c); ds == 0 && wb == 0 && otter.VerifEvictionLockFree(c) {
				break
			}
			time.Sleep(100 * time.Microsecond)
		}
		warm.Store(false)
		otter.VerifHook = ctl.hook
		maxR := sr.intn(3)
		nR := 0
		desc := fmt.Sprintf("schedule %d writers<=%d cleanups<=%d", sc, maxW, maxC)
		t.line("CASE %d", sc)
		var script []string
		nW, nC := 0, 0
		hang := false
		steps := 0
		budget := 40 + sr.intn(120)
		sticky := -1
		for {
			// candidates
			ctl.mu.Lock()
			var parked []int
			allDone := true
			for _, th := range ctl.threads {
				if th.state == 'P' {
					parked = append(parked, th.idx)
				}
				if th.state != 'D' {
					allDone = false
				}
			}
			ctl.mu.Unlock()
			canW := nW < maxW && steps < budget
			canC := nC < maxC && steps < budget
			canR := nR < maxR && steps < budget && nI == 0 // InvalidateAll removes the entry the readers hit
			canX := nX < maxX && steps < budget
			canG := nG < maxG && steps < budget
			canI := nI < maxI && steps < budget
			if len(parked) == 0 && !canW && !canC && !canR && !canX && !canG && !canI {
				if !allDone {
					sum.fail("C14", "sched-deadlock", "threads remain that are neither finished nor resumable: the protocol is stuck",
						fmt.Sprintf("%s script=%s state=%s", desc, strings.Join(script, " "), ctl.observe()))
					failures++
				}
				break
			}
			if steps > 600 {
				break
			}
			steps++
			sum.Ops++
			// choose
			choice := ""
			pickThread := -1
			if len(fixed) > 0 {
				// scripted step; a step that is not possible ends the script (the rest is random)
				tok := fixed[0]
				fixed = fixed[1:]
				if tok == "NW" || tok == "NC" || tok == "NR" {
					choice = tok[1:]
				} else if n, err := strconv.Atoi(tok[1:]); err == nil {
					for _, p := range parked {
						if p == n {
							pickThread = n
						}
					}
				}
				if choice == "" && pickThread < 0 {
					fixed = nil
					sum.Dist["script_abandoned"]++
				}
			}
			if choice == "" && pickThread < 0 {
				var kinds []string
				if canW {
					kinds = append(kinds, "W")
				}
				if canC {
					kinds = append(kinds, "C")
				}
				if canR {
					kinds = append(kinds, "R")
				}
				if canX {
					kinds = append(kinds, "X")
				}
				if canG {
					kinds = append(kinds, "G")
				}
				if canI {
					kinds = append(kinds, "I")
				}
				if sticky >= 0 && sr.chance(60) {
					for _, p := range parked {
						if p == sticky {
							pickThread = p
						}
					}
				}
				if pickThread < 0 {
					x := sr.intn(len(parked) + len(kinds))
					if x < len(parked) {
						pickThread = parked[x]
					} else {
						choice = kinds[x-len(parked)]
					}
				}
			}
			if pickThread >= 0 {
				sticky = pickThread
				ctl.mu.Lock()
				th := ctl.threads[pickThread]
				th.state = 'R'
				ctl.mu.Unlock()
				th.release <- struct{}{}
				script = append(script, fmt.Sprintf("S%d", pickThread))
				t.line("S %d", pickThread)
			} else {
				kind := byte(choice[0])
				th := ctl.register(kind)
				sticky = th.idx
				if kind == 'W' {
					nW++
					key := nW
					go func() {
						ctl.bind(th)
						c.Set(key, key)
						ctl.ev <- schedEvent{th.idx, 'F', 0}
					}()
				} else if kind == 'R' {
					nR++
					go func() {
						ctl.bind(th)
						c.GetIfPresent(0) // a hit: afterRead -> shouldDrainBuffers -> possibly scheduleDrainBuffers
						ctl.ev <- schedEvent{th.idx, 'F', 0}
					}()
				} else if kind == 'X' {
					nX++
					go func() {
						ctl.bind(th)
						c.SetMaximum(64)
						ctl.ev <- schedEvent{th.idx, 'F', 0}
					}()
				} else if kind == 'G' {
					nG++
					go func() {
						ctl.bind(th)
						c.GetMaximum()
						ctl.ev <- schedEvent{th.idx, 'F', 0}
					}()
				} else if kind == 'I' {
					nI++
					go func() {
						ctl.bind(th)
						c.InvalidateAll()
						ctl.ev <- schedEvent{th.idx, 'F', 0}
					}()
				} else {
					nC++
					go func() {
						ctl.bind(th)
						c.CleanUp()
						ctl.ev <- schedEvent{th.idx, 'F', 0}
					}()
				}
				script = append(script, "N"+choice)
				t.line("N %s", choice)
			}
			if !ctl.settle() {
				hang = true
				sum.fail("C14", "sched-hang", "a resumed goroutine neither reached a hook point, finished, nor blocked on the eviction lock within 8 s",
					fmt.Sprintf("%s script=%s state=%s", desc, strings.Join(script, " "), ctl.observe()))
				failures++
				break
			}
			obs := ctl.observe()
			t.line("%s", obs)
			seen[obs[2:]] = true
		}
		if !hang {
			// quiescence: every thread has finished; no further cache call is made
			ds, wb := otter.VerifDrainState(c)
			free := otter.VerifEvictionLockFree(c)
			ctl.mu.Lock()
			allDone := true
			for _, th := range ctl.threads {
				if th.state != 'D' {
					allDone = false
				}
			}
			ctl.mu.Unlock()
			if allDone && (ds != 0 || wb != 0 || !free) {
				sum.fail("C14", "sched-stranded", "all calls have returned and every maintenance task has ended, but maintenance is outstanding",
					fmt.Sprintf("%s status=%d writeBuffer=%d lockFree=%v script=%s", desc, ds, wb, free, strings.Join(script, " ")))
				failures++
			}
			t.line("END %d", map[bool]int{true: 1, false: 0}[allDone])
		} else {
			t.line("ABORT")
			// release everything so that the goroutines can end
			ctl.mu.Lock()
			for _, th := range ctl.threads {
				select {
				case th.release <- struct{}{}:
				default:
				}
			}
			ctl.mu.Unlock()
			otter.VerifHook = nil
		}
		sum.Cases++
		sum.Dist[fmt.Sprintf("threads_%d", len(ctl.threads))]++
	}
	otter.VerifHook = nil
	sum.Distinct = len(seen)
	return sum
}
