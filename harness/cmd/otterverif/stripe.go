package main

// Engine "stripe" — the striped read buffer's table protocol (internal/lossy/striped.go: stripe
// creation, table creation and table expansion under the busy spin lock) executed one macro step
// at a time under schedules chosen by the harness, for the extracted small-step model
// (theories/Striped.v) to replay.
//
// Every Add call runs in its own goroutine and parks at the hook points of the protocol
// (10 before the table load, 11 before the cell load, 13 loop head, 14 cell load in the loop,
// 2 empty cell seen, 15/16 inside/leaving the create section, 18 after a failed ring add,
// 20/21 inside/leaving the expansion, 23/24 inside/leaving the table creation) and inside
// ring.add just before its tail CAS (3) — so that a second Add on the same ring can make that CAS
// fail, the only way an expansion is ever requested.  Exactly one goroutine is resumed at a time.
// After every macro step the busy flag, the table length, the number of attached rings and every
// thread's position and probe index are written to the trace; the replayer finds the model steps
// (and their inputs: ring.add outcome, fresh probe index) that lead to the same observation.
//
// Implementation-only oracle (C17): when every Add has returned and nothing was drained in between,
// one DrainTo delivers exactly the elements whose Add returned Success, each once.

import (
	"fmt"
	"sort"
	"strings"
	"sync"
	"time"

	"github.com/maypok86/otter/v2"
)

func init() { engines["stripe"] = runStripe }

type stThread struct {
	idx     int
	goid    int64
	release chan struct{}
	state   byte // 'R' running, 'P' parked, 'D' done
	hook    int
	probe   uint32
	inLoop  bool
	status  int
	val     int
}

type stEvent struct {
	idx   int
	kind  byte // 'A' arrival, 'F' finished
	hook  int
	probe uint32
	hasPr bool
	res   int
}

type stCtl struct {
	mu      sync.RWMutex
	threads []*stThread
	byGoid  map[int64]*stThread
	ev      chan stEvent
}

func (s *stCtl) lookup() *stThread {
	g := goid()
	s.mu.RLock()
	th := s.byGoid[g]
	s.mu.RUnlock()
	return th
}

func (s *stCtl) park(id int, probe uint32, hasPr bool) {
	th := s.lookup()
	if th == nil {
		return
	}
	s.ev <- stEvent{idx: th.idx, kind: 'A', hook: id, probe: probe, hasPr: hasPr}
	<-th.release
}

func (s *stCtl) settle() bool {
	deadline := time.Now().Add(8 * time.Second)
	for {
		select {
		case e := <-s.ev:
			s.mu.Lock()
			th := s.threads[e.idx]
			if e.kind == 'A' {
				th.state, th.hook = 'P', e.hook
				if e.hasPr {
					th.probe = e.probe % 64 // the table never exceeds 64 stripes here: idx mod len = (idx mod 64) mod len
				}
				if e.hook == 13 {
					th.inLoop = true
				}
			} else {
				th.state, th.status = 'D', e.res
			}
			s.mu.Unlock()
			continue
		default:
		}
		s.mu.RLock()
		running := 0
		for _, th := range s.threads {
			if th.state == 'R' {
				running++
			}
		}
		s.mu.RUnlock()
		if running == 0 {
			return true
		}
		if time.Now().After(deadline) {
			return false
		}
		time.Sleep(10 * time.Microsecond)
	}
}

func runStripe(seed uint64, scale int, out string, _ string) *summary {
	r := &rng{s: seed}
	sum := newSummary("stripe", seed)
	t := newTrace(out)
	defer t.close()
	seen := map[string]bool{}
	schedules := 200 * scale
	failures := 0
	for sc := 0; sc < schedules && failures < 4; sc++ {
		sr := &rng{s: r.next()}
		maxLen := []int{1, 2, 4, 4, 8}[sr.intn(5)]
		maxT := 2 + sr.intn(7)
		ctl := &stCtl{byGoid: map[int64]*stThread{}, ev: make(chan stEvent, 1024)}
		otter.VerifSetLossyHook(func(id int) {
			switch id {
			case 11, 14, 2, 15, 16, 18, 20, 21, 23, 24, 3:
				ctl.park(id, 0, false)
			}
		})
		otter.VerifSetLossyHookIdx(func(id int, idx uint32) { ctl.park(id, idx, true) })
		st := otter.VerifNewStriped(maxLen)
		desc := fmt.Sprintf("schedule %d maxLen=%d threads<=%d", sc, maxLen, maxT)
		t.line("CASE %d %d", sc, maxLen)
		var script []string
		started := 0
		hang := false
		steps := 0
		sticky := -1
		observe := func() string {
			busy := 0
			if st.Busy() {
				busy = 1
			}
			length, attached := st.Stripes()
			var sb strings.Builder
			fmt.Fprintf(&sb, "O %d %d %d", busy, length, attached)
			ctl.mu.RLock()
			for _, th := range ctl.threads {
				switch th.state {
				case 'P':
					switch {
					case th.hook == 3 && th.inLoop:
						sb.WriteString(" R3e")
					case th.hook == 3:
						sb.WriteString(" R3a")
					case th.hook == 10 || th.hook == 13:
						fmt.Fprintf(&sb, " P%d:%d", th.hook, th.probe)
					default:
						fmt.Fprintf(&sb, " P%d", th.hook)
					}
				case 'D':
					fmt.Fprintf(&sb, " D%d", th.status)
				default:
					sb.WriteString(" R")
				}
			}
			ctl.mu.RUnlock()
			return sb.String()
		}
		for {
			ctl.mu.RLock()
			var parked []int
			for _, th := range ctl.threads {
				if th.state == 'P' {
					parked = append(parked, th.idx)
				}
			}
			ctl.mu.RUnlock()
			canN := started < maxT && steps < 150
			if len(parked) == 0 && !canN {
				break
			}
			if steps > 400 {
				break
			}
			steps++
			sum.Ops++
			pick := -1
			// contention on one ring is what drives the table: with several Adds parked just before their
			// ring's tail CAS, letting them go one after the other makes all but the first fail
			var atRing []int
			var holding []int
			ctl.mu.RLock()
			for _, p := range parked {
				if ctl.threads[p].hook == 3 {
					atRing = append(atRing, p)
				}
				if ctl.threads[p].hook == 11 || ctl.threads[p].hook == 14 {
					holding = append(holding, p)
				}
			}
			ctl.mu.RUnlock()
			biased := sc%3 != 0
			if biased && len(atRing) >= 2 && sr.chance(75) {
				pick = atRing[sr.intn(len(atRing))]
			} else if biased && len(atRing) == 1 && len(holding) > 0 && sr.chance(60) {
				pick = holding[sr.intn(len(holding))] // bring another Add to the ring first
			}
			if pick < 0 && sticky >= 0 && sr.chance(55) {
				for _, p := range parked {
					if p == sticky {
						pick = p
					}
				}
			}
			newThread := false
			if pick < 0 {
				n := len(parked)
				if canN {
					n++
				}
				x := sr.intn(n)
				if x < len(parked) {
					pick = parked[x]
				} else {
					newThread = true
				}
			}
			if newThread {
				started++
				th := &stThread{release: make(chan struct{}, 1), state: 'R', val: started}
				ctl.mu.Lock()
				th.idx = len(ctl.threads)
				ctl.threads = append(ctl.threads, th)
				ctl.mu.Unlock()
				sticky = th.idx
				go func() {
					g := goid()
					ctl.mu.Lock()
					th.goid = g
					ctl.byGoid[g] = th
					ctl.mu.Unlock()
					res := st.Add(th.val)
					ctl.ev <- stEvent{idx: th.idx, kind: 'F', res: res}
				}()
				script = append(script, "N")
				t.line("N %d", th.val)
			} else {
				sticky = pick
				ctl.mu.Lock()
				th := ctl.threads[pick]
				th.state = 'R'
				ctl.mu.Unlock()
				th.release <- struct{}{}
				script = append(script, fmt.Sprintf("S%d", pick))
				t.line("S %d", pick)
			}
			if !ctl.settle() {
				hang = true
				sum.fail("C17", "stripe-hang", "a resumed Add neither reached a hook point nor returned within 8 s",
					fmt.Sprintf("%s script=%s state=%s", desc, strings.Join(script, " "), observe()))
				failures++
				break
			}
			obs := observe()
			t.line("%s", obs)
			seen[obs[2:]] = true
		}
		if hang {
			t.line("ABORT")
			otter.VerifSetLossyHook(nil)
			otter.VerifSetLossyHookIdx(nil)
			ctl.mu.Lock()
			for _, th := range ctl.threads {
				select {
				case th.release <- struct{}{}:
				default:
				}
			}
			ctl.mu.Unlock()
			continue
		}
		// every Add has returned (or the step budget ran out with some still parked: release them, unobserved)
		otter.VerifSetLossyHook(nil)
		otter.VerifSetLossyHookIdx(nil)
		ctl.mu.Lock()
		pendingLeft := 0
		for _, th := range ctl.threads {
			if th.state == 'P' {
				pendingLeft++
				th.state = 'R'
				th.release <- struct{}{}
			}
		}
		ctl.mu.Unlock()
		if pendingLeft > 0 {
			ctl.settle()
			t.line("ABORT")
		}
		var want []int
		ctl.mu.RLock()
		for _, th := range ctl.threads {
			if th.state == 'D' && th.status == 0 {
				want = append(want, th.val)
			}
		}
		ctl.mu.RUnlock()
		got := st.DrainTo()
		sort.Ints(want)
		sort.Ints(got)
		if fmt.Sprint(want) != fmt.Sprint(got) {
			sum.fail("C17", "stripe-drain", "a drain at quiescence did not deliver exactly the elements whose Add returned Success, each once",
				fmt.Sprintf("%s recorded=%v drained=%v script=%s", desc, want, got, strings.Join(script, " ")))
			failures++
		}
		if pendingLeft == 0 {
			var sb strings.Builder
			for _, v := range got {
				fmt.Fprintf(&sb, " %d", v)
			}
			t.line("END%s", sb.String())
		}
		sum.Cases++
		length, attached := st.Stripes()
		sum.Dist[fmt.Sprintf("final_len_%d", length)]++
		sum.Dist[fmt.Sprintf("final_rings_%d", attached)]++
	}
	otter.VerifSetLossyHook(nil)
	otter.VerifSetLossyHookIdx(nil)
	sum.Distinct = len(seen)
	return sum
}
