(* WheelInv.v — the placement invariant of the hierarchical timer wheel (Wheel.v), preserved by every
   link / unlink / sweep, and the completeness of the sweep it implies (C13): after DeleteExpired at
   [now], no timer whose placement key (max of its deadline and the wheel's time when it was linked)
   lies in an earlier tick than [now] is left, unless its deadline was extended to [now] or later.
   Real constants: 5 levels, 64/64/32/4/1 buckets, shifts 30/36/42/47/49. *)
From Otter Require Import Base Wheel WheelFacts.
From Coq Require Import ZifyBool Lia.
Local Open Scope Z_scope.

Arguments wrapu : simpl never.
Arguments Z.shiftr : simpl never.
Arguments Z.land : simpl never.
Arguments Z.div : simpl never.
Arguments Z.modulo : simpl never.
Arguments Z.mul : simpl never.
Arguments Z.add : simpl never.
Arguments Z.sub : simpl never.
Arguments Z.min : simpl never.
Arguments Z.to_nat : simpl never.

Ltac Zify.zify_post_hook ::= Z.div_mod_to_equations.

(* ---- the constants *)
Definition P0 : Z := 1073741824.            (* 2^30 *)
Definition P1 : Z := 68719476736.           (* 2^36 *)
Definition P2 : Z := 4398046511104.         (* 2^42 *)
Definition P3 : Z := 140737488355328.       (* 2^47 *)
Definition P4 : Z := 562949953421312.       (* 2^49 *)

Definition PW (i : nat) : Z := nth i [P0; P1; P2; P3; P4] 1.
Definition NB (i : nat) : Z := nthZ nbuckets i.
Definition NBn (i : nat) : nat := nth i [64; 64; 32; 4; 1]%nat 0%nat.

Lemma shr_level i x : (i < 5)%nat -> Z.shiftr x (nthZ shifts i) = x / PW i.
Proof.
  intros Hi. destruct i as [|[|[|[|[|i]]]]]; try lia; cbn [nthZ shifts nth PW];
    rewrite Z.shiftr_div_pow2 by lia; reflexivity.
Qed.

Lemma land_level i x : (i < 5)%nat -> 0 <= x -> Z.land x (nthZ nbuckets i - 1) = x mod NB i.
Proof.
  intros Hi Hx. destruct i as [|[|[|[|[|i]]]]]; try lia; unfold NB; cbn [nthZ nbuckets nth].
  - change (64 - 1) with (Z.ones 6). rewrite Z.land_ones by lia. reflexivity.
  - change (64 - 1) with (Z.ones 6). rewrite Z.land_ones by lia. reflexivity.
  - change (32 - 1) with (Z.ones 5). rewrite Z.land_ones by lia. reflexivity.
  - change (4 - 1) with (Z.ones 2). rewrite Z.land_ones by lia. reflexivity.
  - change (1 - 1) with 0. rewrite Z.land_0_r. rewrite Z.mod_1_r. reflexivity.
Qed.

(* ---- buckets *)
Definition shape (w : wheel) : Prop := map (@length (list timer)) (wlevels w) = [64; 64; 32; 4; 1]%nat.
Definition bucket (w : wheel) (i j : nat) : list timer := nth j (nth i (wlevels w) []) [].

Lemma shape_len w : shape w -> length (wlevels w) = 5%nat.
Proof. unfold shape. intros H. rewrite <- (map_length (@length (list timer))). rewrite H. reflexivity. Qed.

Lemma shape_level w i : shape w -> length (nth i (wlevels w) []) = NBn i.
Proof.
  unfold shape, NBn. intros H.
  change (length (nth i (wlevels w) [])) with (length (nth i (wlevels w) (@nil (list timer)))).
  rewrite <- (map_nth (@length (list timer))). rewrite H. reflexivity.
Qed.

Lemma bucket_out_level w i j : shape w -> (5 <= i)%nat -> bucket w i j = [].
Proof.
  intros H Hi. unfold bucket. rewrite (nth_overflow (wlevels w)) by (rewrite (shape_len w H); lia).
  destruct j; reflexivity.
Qed.

Lemma bucket_out_slot w i j : shape w -> (NBn i <= j)%nat -> bucket w i j = [].
Proof. intros H Hj. unfold bucket. apply nth_overflow. rewrite (shape_level w i H). exact Hj. Qed.

Lemma in_bucket_range w i j t : shape w -> In t (bucket w i j) -> (i < 5)%nat /\ (j < NBn i)%nat.
Proof.
  intros H Hin. split.
  - destruct (Nat.lt_ge_cases i 5) as [L|G]; [exact L|]. rewrite (bucket_out_level w i j H G) in Hin. destruct Hin.
  - destruct (Nat.lt_ge_cases j (NBn i)) as [L|G]; [exact L|]. rewrite (bucket_out_slot w i j H G) in Hin. destruct Hin.
Qed.

Lemma upd_bucket_shape ls i j f :
  map (@length (list timer)) (upd_bucket ls i j f) = map (@length (list timer)) ls.
Proof.
  unfold upd_bucket. revert i. induction ls as [|l ls IH]; intros [|i]; cbn [upd map nth]; try reflexivity.
  - rewrite upd_length. reflexivity.
  - f_equal.
    (* the inner update reads level i of the tail *)
    specialize (IH i). cbn [nth] in IH. exact IH.
Qed.

Lemma upd_bucket_get ls i j f i' j' :
  (i < length ls)%nat -> (j < length (nth i ls []))%nat ->
  nth j' (nth i' (upd_bucket ls i j f) []) [] =
  if (Nat.eqb i' i && Nat.eqb j' j)%bool then f (nth j (nth i ls []) []) else nth j' (nth i' ls []) [].
Proof.
  intros Hi Hj. unfold upd_bucket.
  destruct (Nat.eqb_spec i' i) as [->|Ni].
  - rewrite nth_upd_same by exact Hi.
    destruct (Nat.eqb_spec j' j) as [->|Nj]; cbn [andb].
    + rewrite nth_upd_same by exact Hj. reflexivity.
    + rewrite nth_upd_other by congruence. reflexivity.
  - cbn [andb]. rewrite nth_upd_other by congruence. reflexivity.
Qed.

(* ---- findBucket *)
Lemma find_bucket_spec w e :
  0 <= wtime w -> wtime w <= e < two63 ->
  exists lvl slot, find_bucket w e = (lvl, slot, e) /\ (lvl < 5)%nat /\ (slot < NBn lvl)%nat /\
    ((lvl < 4)%nat -> slot = Z.to_nat ((e / PW lvl) mod NB lvl) /\ e / PW lvl <= wtime w / PW lvl + NB lvl) /\
    (lvl = 4%nat -> slot = 0%nat) /\
    (lvl = 0%nat -> wtime w / PW 0 <= e / PW 0) /\
    (lvl <> 0%nat -> wtime w / PW lvl < e / PW lvl).
Proof.
  intros HT He. unfold find_bucket, two63 in *.
  replace (e <? wtime w) with false by lia.
  rewrite wrapu_id by (unfold in_u64, two64; lia).
  set (d := e - wtime w).
  unfold span_next. cbn [find_level].
  destruct (d <? 68719476736) eqn:E0.
  { exists 0%nat. eexists. cbn [Nat.ltb Nat.leb]. split; [reflexivity|].
    rewrite (shr_level 0) by lia. rewrite (land_level 0) by (lia || (apply Z.div_pos; unfold PW, P0; cbn [nth]; lia)).
    unfold PW, NB, NBn, P0 in *. cbn [nth nthZ nbuckets] in *. subst d.
    repeat split; try lia. }
  destruct (d <? 4398046511104) eqn:E1.
  { exists 1%nat. eexists. cbn [Nat.ltb Nat.leb]. split; [reflexivity|].
    rewrite (shr_level 1) by lia. rewrite (land_level 1) by (lia || (apply Z.div_pos; unfold PW, P1; cbn [nth]; lia)).
    unfold PW, NB, NBn, P1 in *. cbn [nth nthZ nbuckets] in *. subst d.
    repeat split; try lia. }
  destruct (d <? 140737488355328) eqn:E2.
  { exists 2%nat. eexists. cbn [Nat.ltb Nat.leb]. split; [reflexivity|].
    rewrite (shr_level 2) by lia. rewrite (land_level 2) by (lia || (apply Z.div_pos; unfold PW, P2; cbn [nth]; lia)).
    unfold PW, NB, NBn, P2 in *. cbn [nth nthZ nbuckets] in *. subst d.
    repeat split; try lia. }
  destruct (d <? 562949953421312) eqn:E3.
  { exists 3%nat. eexists. cbn [Nat.ltb Nat.leb]. split; [reflexivity|].
    rewrite (shr_level 3) by lia. rewrite (land_level 3) by (lia || (apply Z.div_pos; unfold PW, P3; cbn [nth]; lia)).
    unfold PW, NB, NBn, P3 in *. cbn [nth nthZ nbuckets] in *. subst d.
    repeat split; try lia. }
  exists 4%nat, 0%nat. cbn [Nat.ltb Nat.leb]. split; [reflexivity|].
  unfold PW, NB, NBn, P4 in *. cbn [nth nthZ nbuckets] in *. subst d.
  repeat split; try lia.
Qed.

(* ---- placement *)
(* timer [t] may sit in bucket (i, j) when the wheel's time is T: its key's level-i tick selects
   the slot, lies ahead of T's (strictly, above level 0) and within one revolution *)
Definition placed (T : Z) (i j : nat) (t : timer) : Prop :=
  let e := tkey t in
  (i < 5)%nat /\ 0 <= e < two63 /\
  ((i < 4)%nat -> j = Z.to_nat ((e / PW i) mod NB i) /\ e / PW i <= T / PW i + NB i) /\
  (i = 4%nat -> j = 0%nat) /\
  (i = 0%nat -> T / PW 0 <= e / PW 0) /\
  (i <> 0%nat -> T / PW i < e / PW i).

Lemma placed_tick_eq T T' i j t : T / PW i = T' / PW i -> placed T i j t -> placed T' i j t.
Proof.
  unfold placed. intros E (H1 & H2 & H3 & H4 & H5 & H6).
  split; [exact H1|]. split; [exact H2|]. split; [|split; [exact H4|split]].
  - intros L. rewrite <- E. apply H3. exact L.
  - intros ->. rewrite <- E. apply H5. reflexivity.
  - intros N. rewrite <- E. apply H6. exact N.
Qed.

Definition Inv (w : wheel) : Prop :=
  shape w /\ 0 <= wtime w /\ forall i j t, In t (bucket w i j) -> placed (wtime w) i j t.

Lemma shape_wheel0 : shape wheel0.
Proof. reflexivity. Qed.

Lemma bucket_wheel0 i j : bucket wheel0 i j = [].
Proof.
  unfold bucket, wheel0. cbn [wlevels].
  destruct (Nat.lt_ge_cases i 5) as [L|G].
  - destruct (Nat.lt_ge_cases j (NBn i)) as [L'|G'].
    + assert (H : forall n k, nth k (repeat (@nil timer) n) [] = []).
      { induction n as [|n IH]; intros [|k]; cbn [repeat nth]; auto. }
      destruct i as [|[|[|[|[|i]]]]]; try lia; cbn [map nbuckets nth empty_level]; apply H.
    + apply (bucket_out_slot wheel0 i j shape_wheel0 G').
  - apply (bucket_out_level wheel0 i j shape_wheel0 G).
Qed.

Lemma inv_wheel0 : Inv wheel0.
Proof.
  split; [exact shape_wheel0|]. split; [cbn; lia|]. intros i j t H. rewrite bucket_wheel0 in H. destruct H.
Qed.

(* --- link *)
Lemma wheel_add_shape w id e : shape w -> shape (wheel_add w id e).
Proof.
  unfold shape, wheel_add. intros H. destruct (find_bucket w e) as [[l s] k]. cbn [wlevels].
  rewrite upd_bucket_shape. exact H.
Qed.

(* the clamped key *)
Definition clamp (w : wheel) (e : Z) : Z := if e <? wtime w then wtime w else e.

Lemma find_bucket_clamp w e : find_bucket w e = find_bucket w (clamp w e).
Proof.
  unfold find_bucket, clamp. destruct (e <? wtime w) eqn:E; [|rewrite E; reflexivity].
  rewrite Z.ltb_irrefl. reflexivity.
Qed.

Lemma wheel_add_bucket w id e : shape w -> 0 <= wtime w -> 0 <= e < two63 -> wtime w < two63 ->
  exists lvl slot, placed (wtime w) lvl slot (mkTimer id (clamp w e)) /\
    forall i j, bucket (wheel_add w id e) i j =
      if (Nat.eqb i lvl && Nat.eqb j slot)%bool then bucket w i j ++ [mkTimer id (clamp w e)] else bucket w i j.
Proof.
  intros Hs HT He HT2.
  assert (Hc : wtime w <= clamp w e < two63) by (unfold clamp; destruct (e <? wtime w) eqn:E; lia).
  destruct (find_bucket_spec w (clamp w e) HT Hc) as (lvl & slot & F & L1 & L2 & L3 & L4 & L5 & L6).
  exists lvl, slot. split.
  - unfold placed. cbn [tkey].
    split; [exact L1|]. split; [split; [apply Z.le_trans with (wtime w); [exact HT|apply Hc]|apply Hc]|].
    split; [exact L3|]. split; [exact L4|]. split; [exact L5|exact L6].
  - intros i j. unfold wheel_add. rewrite find_bucket_clamp, F. unfold bucket. cbn [wlevels].
    rewrite upd_bucket_get.
    + destruct (Nat.eqb_spec i lvl) as [->|]; [|reflexivity].
      destruct (Nat.eqb_spec j slot) as [->|]; reflexivity.
    + rewrite (shape_len w Hs). exact L1.
    + rewrite (shape_level w lvl Hs). exact L2.
Qed.

Lemma wheel_add_inv w id e : Inv w -> 0 <= e < two63 -> wtime w < two63 -> Inv (wheel_add w id e).
Proof.
  intros (Hs & HT & Hp) He HT2.
  destruct (wheel_add_bucket w id e Hs HT He HT2) as (lvl & slot & Pl & B).
  split; [apply wheel_add_shape; exact Hs|]. rewrite wheel_add_time. split; [exact HT|].
  intros i j t Hin. rewrite B in Hin.
  destruct (Nat.eqb i lvl && Nat.eqb j slot)%bool eqn:E.
  - apply in_app_iff in Hin. destruct Hin as [Hin|[<-|[]]]; [apply Hp; exact Hin|].
    apply andb_true_iff in E. destruct E as [E1 E2]. apply Nat.eqb_eq in E1, E2. subst. exact Pl.
  - apply Hp. exact Hin.
Qed.

(* --- unlink *)
Lemma wheel_delete_shape w id : shape w -> shape (wheel_delete w id).
Proof.
  unfold shape, wheel_delete. cbn [wlevels]. intros H. rewrite map_map.
  rewrite <- H. apply map_ext. intros l. apply map_length.
Qed.

Lemma wheel_delete_bucket w id i j :
  bucket (wheel_delete w id) i j = filter (fun t => negb (tid t =? id)) (bucket w i j).
Proof.
  unfold bucket, wheel_delete. cbn [wlevels].
  change (@nil (list timer)) with (map (filter (fun t => negb (tid t =? id))) (@nil (list timer))) at 1.
  rewrite map_nth.
  change (@nil timer) with (filter (fun t => negb (tid t =? id)) (@nil timer)) at 1.
  rewrite map_nth. reflexivity.
Qed.

Lemma wheel_delete_inv w id : Inv w -> Inv (wheel_delete w id).
Proof.
  intros (Hs & HT & Hp). split; [apply wheel_delete_shape; exact Hs|]. split; [exact HT|].
  intros i j t Hin. rewrite wheel_delete_bucket in Hin. apply filter_In in Hin. apply Hp. apply Hin.
Qed.

Lemma wheel_delete_gone w id i j t : In t (bucket (wheel_delete w id) i j) -> tid t <> id.
Proof. rewrite wheel_delete_bucket. intros H. apply filter_In in H. destruct H as [_ H]. lia. Qed.

(* ---- the sweep *)
Definition tin (w : wheel) (t : timer) : Prop := exists i j, In t (bucket w i j).

Lemma slot_cover nb pt ct te : 0 < nb -> 0 <= pt <= te -> te <= ct -> te <= pt + nb ->
  exists m, 0 <= m < Z.min (ct - pt + 1) nb /\ (pt mod nb + m) mod nb = te mod nb.
Proof.
  intros Hnb Hpt Hct Hrev.
  destruct (Z_lt_ge_dec (te - pt) nb) as [L|G].
  - exists (te - pt). split; [lia|]. rewrite Zplus_mod_idemp_l. f_equal. lia.
  - exists 0. split; [lia|]. rewrite Zplus_mod_idemp_l. replace te with (pt + 1 * nb) by lia.
    rewrite Z_mod_plus_full. f_equal. lia.
Qed.

Lemma PW_pos i : 0 < PW i.
Proof. destruct i as [|[|[|[|[|[|i]]]]]]; cbn [PW nth]; unfold P0, P1, P2, P3, P4; lia. Qed.

Lemma NB_pos i : (i < 5)%nat -> 0 < NB i.
Proof. intros H. destruct i as [|[|[|[|[|i]]]]]; try lia; unfold NB; cbn [nthZ nbuckets nth]; lia. Qed.

Lemma NB_NBn i : (i < 5)%nat -> NB i = Z.of_nat (NBn i).
Proof. intros H. destruct i as [|[|[|[|[|i]]]]]; try lia; reflexivity. Qed.

Lemma tick_eq_mono k i a b : (k <= i < 5)%nat -> 0 <= a <= b -> a / PW k = b / PW k -> a / PW i = b / PW i.
Proof.
  intros Hk Hab E.
  destruct k as [|[|[|[|[|k]]]]]; try lia; destruct i as [|[|[|[|[|i]]]]]; try lia;
    unfold PW, P0, P1, P2, P3, P4 in *; cbn [nth] in *; lia.
Qed.

(* inside the section divisions are by PW i / NB i with i a variable: keep them opaque for lia *)
Ltac Zify.zify_post_hook ::= idtac.

Section Sweep.
Variable cur : Z -> Z.
Variables prev now : Z.
Hypothesis Hprev : 0 <= prev <= now.
Hypothesis Hnow : now < two63.
Hypothesis Hcur : forall id, 0 <= cur id < two63.
Variable w0 : wheel.          (* the wheel before the sweep, for the "nothing is lost" part *)

(* level i is being swept and S is the set of its slots already swept: every timer is placed with
   respect to the new time, or still with respect to the old one in a part not yet swept *)
Definition Q (i : nat) (S : nat -> Prop) (w : wheel) : Prop :=
  shape w /\ wtime w = now /\
  forall i' j t, In t (bucket w i' j) ->
    placed now i' j t \/ (((i < i')%nat \/ (i' = i /\ ~ S j)) /\ placed prev i' j t).

(* every timer of the original wheel is expired, still linked, pending in the detached bucket, or
   its deadline is not before [now] (it was re-linked) *)
Definition Tr (w : wheel) (acc : list Z) (pend : list timer) : Prop :=
  forall t, tin w0 t -> In (tid t) acc \/ tin w t \/ In t pend \/ now <= cur (tid t).

Lemma Q_weaken i (S S' : nat -> Prop) w : (forall j, S' j -> S j) -> Q i S w -> Q i S' w.
Proof.
  intros HS (Hs & Ht & Hp). split; [exact Hs|]. split; [exact Ht|].
  intros i' j t Hin. destruct (Hp i' j t Hin) as [H|[[H|[H1 H2]] H3]]; [left; exact H| |].
  - right. split; [left; exact H|exact H3].
  - right. split; [right; split; [exact H1|intros C; apply H2; apply HS; exact C]|exact H3].
Qed.

Lemma add_facts w id e : shape w -> wtime w = now -> now <= e < two63 ->
  exists lvl slot, placed now lvl slot (mkTimer id e) /\
    forall i j, bucket (wheel_add w id e) i j =
      if (Nat.eqb i lvl && Nat.eqb j slot)%bool then bucket w i j ++ [mkTimer id e] else bucket w i j.
Proof.
  intros Hs Ht He.
  destruct (wheel_add_bucket w id e Hs) as (lvl & slot & Pl & B); try lia.
  assert (C : clamp w e = e) by (unfold clamp; rewrite Ht; destruct (e <? now) eqn:E; lia).
  rewrite C in *. rewrite Ht in Pl. exists lvl, slot. split; assumption.
Qed.

Lemma Q_add i S w id e : Q i S w -> now <= e < two63 -> Q i S (wheel_add w id e).
Proof.
  intros (Hs & Ht & Hp) He.
  destruct (add_facts w id e Hs Ht He) as (lvl & slot & Pl & B).
  split; [apply wheel_add_shape; exact Hs|]. split; [rewrite wheel_add_time; exact Ht|].
  intros i' j t Hin. rewrite B in Hin.
  destruct (Nat.eqb i' lvl && Nat.eqb j slot)%bool eqn:E; [|apply Hp; exact Hin].
  apply in_app_iff in Hin. destruct Hin as [Hin|[<-|[]]]; [apply Hp; exact Hin|].
  apply andb_true_iff in E. destruct E as [E1 E2]. apply Nat.eqb_eq in E1, E2. subst. left. exact Pl.
Qed.

Lemma tin_add w id e t : shape w -> wtime w = now -> now <= e < two63 -> tin w t -> tin (wheel_add w id e) t.
Proof.
  intros Hs Ht He (i & j & Hin).
  destruct (add_facts w id e Hs Ht He) as (lvl & slot & _ & B).
  exists i, j. rewrite B. destruct (Nat.eqb i lvl && Nat.eqb j slot)%bool; [apply in_app_iff; left|]; exact Hin.
Qed.

Lemma sweep_timers_QT i S ts : forall w acc,
  Q i S w -> Tr w acc ts ->
  Q i S (fst (sweep_timers cur w ts acc)) /\ Tr (fst (sweep_timers cur w ts acc)) (snd (sweep_timers cur w ts acc)) [].
Proof.
  induction ts as [|t ts IH]; intros w acc HQ HT; cbn [sweep_timers].
  - cbn [fst snd]. split; assumption.
  - destruct HQ as (Hs & Ht & Hp).
    destruct (cur (tid t) <? wtime w) eqn:E.
    + apply IH; [split; [exact Hs|split; [exact Ht|exact Hp]]|].
      intros t' Hin. destruct (HT t' Hin) as [H|[H|[[<-|H]|H]]].
      * left. apply in_app_iff. left. exact H.
      * right. left. exact H.
      * left. apply in_app_iff. right. left. reflexivity.
      * right. right. left. exact H.
      * right. right. right. exact H.
    + assert (He : now <= cur (tid t) < two63) by (pose proof (Hcur (tid t)); lia).
      apply IH; [apply Q_add; [split; [exact Hs|split; [exact Ht|exact Hp]]|exact He]|].
      intros t' Hin. destruct (HT t' Hin) as [H|[H|[[<-|H]|H]]].
      * left. exact H.
      * right. left. apply tin_add; assumption.
      * right. right. right. lia.
      * right. right. left. exact H.
      * right. right. right. exact H.
Qed.

Definition clear_bucket (w : wheel) (i j : nat) : wheel :=
  mkWheel (wtime w) (upd_bucket (wlevels w) i j (fun _ => [])).

Lemma clear_bucket_get w i j i' j' : shape w -> (i < 5)%nat -> (j < NBn i)%nat ->
  bucket (clear_bucket w i j) i' j' = if (Nat.eqb i' i && Nat.eqb j' j)%bool then [] else bucket w i' j'.
Proof.
  intros Hs Hi Hj. unfold bucket, clear_bucket. cbn [wlevels]. apply upd_bucket_get.
  - rewrite (shape_len w Hs). exact Hi.
  - rewrite (shape_level w i Hs). exact Hj.
Qed.

Lemma sweep_bucket_QT i S w j0 acc : (i < 5)%nat -> (j0 < NBn i)%nat ->
  Q i S w -> Tr w acc [] ->
  Q i (fun j => S j \/ j = j0) (fst (sweep_bucket cur w i j0 acc)) /\
  Tr (fst (sweep_bucket cur w i j0 acc)) (snd (sweep_bucket cur w i j0 acc)) [].
Proof.
  intros Hi Hj (Hs & Ht & Hp) HT. unfold sweep_bucket.
  change (mkWheel (wtime w) (upd_bucket (wlevels w) i j0 (fun _ => []))) with (clear_bucket w i j0).
  change (nth j0 (nth i (wlevels w) []) []) with (bucket w i j0).
  apply sweep_timers_QT.
  - split; [|split; [exact Ht|]].
    + unfold shape, clear_bucket. cbn [wlevels]. rewrite upd_bucket_shape. exact Hs.
    + intros i' j t Hin. rewrite (clear_bucket_get w i j0 i' j Hs Hi Hj) in Hin.
      destruct (Nat.eqb_spec i' i) as [->|Ni]; cbn [andb] in Hin.
      * destruct (Nat.eqb_spec j j0) as [->|Nj]; [destruct Hin|].
        destruct (Hp i j t Hin) as [H|[[H|[H1 H2]] H3]]; [left; exact H|lia|].
        right. split; [right; split; [reflexivity|intros [C|C]; [apply H2; exact C|congruence]]|exact H3].
      * destruct (Hp i' j t Hin) as [H|[[H|[H1 H2]] H3]]; [left; exact H| |congruence].
        right. split; [left; exact H|exact H3].
  - intros t Hin. destruct (HT t Hin) as [H|[(i' & j & H)|[[]|H]]].
    + left. exact H.
    + destruct (Nat.eqb_spec i' i) as [->|Ni].
      * destruct (Nat.eqb_spec j j0) as [->|Nj].
        -- right. right. left. exact H.
        -- right. left. exists i, j. rewrite (clear_bucket_get w i j0 i j Hs Hi Hj).
           rewrite Nat.eqb_refl. cbn [andb]. destruct (Nat.eqb_spec j j0); [congruence|exact H].
      * right. left. exists i', j. rewrite (clear_bucket_get w i j0 i' j Hs Hi Hj).
        destruct (Nat.eqb_spec i' i); [congruence|exact H].
    + right. right. right. exact H.
Qed.

Lemma sweep_slots_QT i (Hi : (i < 5)%nat) steps : forall S start w acc,
  0 <= start -> Q i S w -> Tr w acc [] ->
  let r := sweep_slots cur w i start (NB i - 1) steps acc in
  Q i (fun j => S j \/ exists m, (m < steps)%nat /\ j = Z.to_nat ((start + Z.of_nat m) mod NB i)) (fst r) /\
  Tr (fst r) (snd r) [].
Proof.
  induction steps as [|n IH]; intros S start w acc Hst HQ HT; cbn [sweep_slots]; cbv zeta.
  - cbn [fst snd]. split; [|exact HT]. apply (Q_weaken i S); [|exact HQ].
    intros j [H|(m & Hm & _)]; [exact H|lia].
  - pose proof (land_level i start Hi Hst) as HL. change (nthZ nbuckets i) with (NB i) in HL. rewrite HL. clear HL.
    pose proof (NB_pos i Hi) as Hnb. pose proof (NB_NBn i Hi) as Hnn.
    assert (Hslot : (Z.to_nat (start mod NB i) < NBn i)%nat).
    { pose proof (Z.mod_pos_bound start (NB i) Hnb). lia. }
    destruct (sweep_bucket_QT i S w (Z.to_nat (start mod NB i)) acc Hi Hslot HQ HT) as [HQ1 HT1].
    destruct (sweep_bucket cur w i (Z.to_nat (start mod NB i)) acc) as [w1 acc1]. cbn [fst snd] in HQ1, HT1.
    specialize (IH _ (start + 1) w1 acc1 ltac:(lia) HQ1 HT1). cbv zeta in IH.
    destruct IH as [IH1 IH2]. split; [|exact IH2].
    apply (Q_weaken i _ _ ) with (2 := IH1).
    intros j [H|(m & Hm & ->)]; [left; left; exact H|].
    destruct m as [|m].
    + left. right. f_equal. f_equal. lia.
    + right. exists m. split; [lia|]. f_equal. f_equal. lia.
Qed.

(* levels below k are done: everything there is placed with respect to the new time *)
Definition R (k : nat) (w : wheel) : Prop :=
  shape w /\ wtime w = now /\
  forall i' j t, In t (bucket w i' j) -> placed now i' j t \/ ((k <= i')%nat /\ placed prev i' j t).

Lemma R_Q k w : R k w -> Q k (fun _ => False) w.
Proof.
  intros (Hs & Ht & Hp). split; [exact Hs|]. split; [exact Ht|].
  intros i' j t Hin. destruct (Hp i' j t Hin) as [H|[H1 H2]]; [left; exact H|].
  right. split; [|exact H2]. destruct (Nat.eq_dec i' k) as [->|N]; [right; split; [reflexivity|tauto]|left; lia].
Qed.

(* a timer of level i that the sweep of level i did not visit is not yet reached by the new time *)
Lemma unswept_placed_now i j t : (i < 5)%nat ->
  prev / PW i < now / PW i ->
  placed prev i j t ->
  ~ (exists m, (m < Z.to_nat (Z.min (now / PW i - prev / PW i + 1) (NB i)))%nat /\
       j = Z.to_nat (((prev / PW i) mod NB i + Z.of_nat m) mod NB i)) ->
  placed now i j t.
Proof.
  intros Hi Hlt (H1 & H2 & H3 & H4 & H5 & H6) Hno.
  pose proof (NB_pos i Hi) as Hnb.
  assert (Hpt : 0 <= prev / PW i) by (apply Z.div_pos; [lia|apply PW_pos]).
  destruct (Nat.eq_dec i 4) as [->|N4].
  - exfalso. apply Hno. exists 0%nat. split.
    + unfold NB in *. cbn [nthZ nbuckets nth] in *. lia.
    + rewrite (H4 eq_refl). unfold NB. cbn [nthZ nbuckets nth]. rewrite Z.mod_1_r. reflexivity.
  - assert (L4 : (i < 4)%nat) by lia. destruct (H3 L4) as [Hj Hrev].
    assert (Hle : prev / PW i <= tkey t / PW i).
    { destruct (Nat.eq_dec i 0) as [->|N0]; [apply H5; reflexivity|specialize (H6 N0); lia]. }
    assert (Hgt : now / PW i < tkey t / PW i).
    { destruct (Z_lt_ge_dec (now / PW i) (tkey t / PW i)) as [L|G]; [exact L|exfalso].
      destruct (slot_cover (NB i) (prev / PW i) (now / PW i) (tkey t / PW i) Hnb) as (m & Hm & Em); try lia.
      apply Hno. exists (Z.to_nat m). split; [lia|]. rewrite Z2Nat.id by lia. rewrite Em. exact Hj. }
    unfold placed. split; [exact H1|]. split; [exact H2|]. split; [|split; [exact H4|split]].
    + intros _. split; [exact Hj|lia].
    + intros ->. lia.
    + intros _. exact Hgt.
Qed.

Lemma sweep_levels_QT n : forall k w acc, (k + n = 5)%nat -> R k w -> Tr w acc [] ->
  let r := sweep_levels cur w prev now (seq k n) acc in
  R 5 (fst r) /\ Tr (fst r) (snd r) [].
Proof.
  induction n as [|n IH]; intros k w acc Hk HR HT; cbn [seq sweep_levels]; cbv zeta.
  - cbn [fst snd]. replace k with 5%nat in HR by lia. split; assumption.
  - assert (Hk5 : (k < 5)%nat) by lia.
    rewrite !(shr_level k) by exact Hk5.
    assert (Hpt : 0 <= prev / PW k) by (apply Z.div_pos; [lia|apply PW_pos]).
    assert (Hmono : prev / PW k <= now / PW k) by (apply Z.div_le_mono; [apply PW_pos|lia]).
    destruct (now / PW k - prev / PW k =? 0) eqn:E.
    + cbn [fst snd]. split; [|exact HT].
      destruct HR as (Hs & Ht & Hp). split; [exact Hs|]. split; [exact Ht|].
      intros i' j t Hin. destruct (Hp i' j t Hin) as [H|[H1 H2]]; [left; exact H|]. left.
      apply (placed_tick_eq prev now); [|exact H2].
      apply (tick_eq_mono k i'); [|lia|lia]. split; [exact H1|]. apply H2.
    + pose proof (land_level k (prev / PW k) Hk5 Hpt) as HL. change (nthZ nbuckets k) with (NB k) in *. rewrite HL. clear HL.
      assert (Hst : 0 <= (prev / PW k) mod NB k).
      { apply Z.mod_pos_bound. apply NB_pos. exact Hk5. }
      pose proof (sweep_slots_QT k Hk5 (Z.to_nat (Z.min (now / PW k - prev / PW k + 1) (NB k))) (fun _ => False)
                    ((prev / PW k) mod NB k) w acc Hst (R_Q k w HR) HT) as HS. cbv zeta in HS.
      destruct (sweep_slots cur w k ((prev / PW k) mod NB k) (NB k - 1)
                  (Z.to_nat (Z.min (now / PW k - prev / PW k + 1) (NB k))) acc) as [w1 acc1].
      cbn [fst snd] in HS. destruct HS as [HQ1 HT1].
      apply IH; [lia| |exact HT1].
      destruct HQ1 as (Hs & Ht & Hp). split; [exact Hs|]. split; [exact Ht|].
      intros i' j t Hin. destruct (Hp i' j t Hin) as [H|[[H|[-> H2]] H3]]; [left; exact H|right; split; [lia|exact H3]|].
      left. apply unswept_placed_now; [exact Hk5|lia|exact H3|].
      intros C. apply H2. right. exact C.
Qed.

(* expired ids are due *)
Lemma sweep_bucket_due w lvl slot acc id :
  wtime (fst (sweep_bucket cur w lvl slot acc)) = wtime w /\
  (In id (snd (sweep_bucket cur w lvl slot acc)) -> In id acc \/ cur id < wtime w).
Proof.
  unfold sweep_bucket.
  set (w' := mkWheel (wtime w) (upd_bucket (wlevels w) lvl slot (fun _ => []))).
  set (ts := nth slot (nth lvl (wlevels w) []) []).
  pose proof (sweep_timers_spec cur ts w' acc) as H.
  pose proof (sweep_timers_expired_due cur ts w' acc id) as H2.
  destruct (sweep_timers cur w' ts acc) as [w1 acc1]. cbn [fst snd] in *. destruct H as [H _].
  split; [exact H|exact H2].
Qed.

Lemma sweep_slots_due lvl mask steps : forall w start acc id,
  wtime (fst (sweep_slots cur w lvl start mask steps acc)) = wtime w /\
  (In id (snd (sweep_slots cur w lvl start mask steps acc)) -> In id acc \/ cur id < wtime w).
Proof.
  induction steps as [|n IH]; intros w start acc id; cbn [sweep_slots].
  - cbn [fst snd]. split; [reflexivity|intros H; left; exact H].
  - pose proof (sweep_bucket_due w lvl (Z.to_nat (Z.land start mask)) acc id) as [H1 H2].
    destruct (sweep_bucket cur w lvl (Z.to_nat (Z.land start mask)) acc) as [w1 acc1]. cbn [fst snd] in *.
    destruct (IH w1 (start + 1) acc1 id) as [I1 I2]. split; [rewrite I1; exact H1|].
    intros Hin. destruct (I2 Hin) as [H|H]; [apply H2; exact H|right; rewrite <- H1; exact H].
Qed.

Lemma sweep_levels_due lvls : forall w acc id,
  wtime (fst (sweep_levels cur w prev now lvls acc)) = wtime w /\
  (In id (snd (sweep_levels cur w prev now lvls acc)) -> In id acc \/ cur id < wtime w).
Proof.
  induction lvls as [|i lvls IH]; intros w acc id; cbn [sweep_levels]; cbv zeta.
  - cbn [fst snd]. split; [reflexivity|intros H; left; exact H].
  - destruct (Z.shiftr now (nthZ shifts i) - Z.shiftr prev (nthZ shifts i) =? 0).
    + cbn [fst snd]. split; [reflexivity|intros H; left; exact H].
    + match goal with |- context [sweep_slots cur w i ?st ?mk ?n acc] =>
        pose proof (sweep_slots_due i mk n w st acc id) as [H1 H2];
        destruct (sweep_slots cur w i st mk n acc) as [w1 acc1] end.
      cbn [fst snd] in *. destruct (IH w1 acc1 id) as [I1 I2]. split; [rewrite I1; exact H1|].
      intros Hin. destruct (I2 Hin) as [H|H]; [apply H2; exact H|right; rewrite <- H1; exact H].
Qed.

Hypothesis HInv0 : Inv w0.
Hypothesis Hprev0 : wtime w0 = prev.

Theorem sweep_correct_sec :
  let r := wheel_delete_expired cur w0 now in
  Inv (fst r) /\ wtime (fst r) = now /\
  (forall id, In id (snd r) -> cur id < now) /\
  (forall t, tin w0 t -> In (tid t) (snd r) \/ tin (fst r) t \/ now <= cur (tid t)).
Proof.
  cbv zeta. unfold wheel_delete_expired. rewrite Hprev0.
  destruct HInv0 as (Hs & HT & Hp).
  assert (HR : R 0 (mkWheel now (wlevels w0))).
  { split; [exact Hs|]. split; [reflexivity|]. intros i' j t Hin. right. split; [lia|].
    rewrite <- Hprev0. apply Hp. exact Hin. }
  assert (HTr : Tr (mkWheel now (wlevels w0)) [] []).
  { intros t (i & j & Hin). right. left. exists i, j. exact Hin. }
  pose proof (sweep_levels_QT 5 0 (mkWheel now (wlevels w0)) [] eq_refl HR HTr) as H. cbv zeta in H.
  change (seq 0 5) with [0; 1; 2; 3; 4]%nat in H.
  pose proof (fun id => sweep_levels_due [0; 1; 2; 3; 4]%nat (mkWheel now (wlevels w0)) [] id) as D.
  destruct (sweep_levels cur (mkWheel now (wlevels w0)) prev now [0; 1; 2; 3; 4]%nat []) as [w1 acc1].
  cbn [fst snd wtime] in *. destruct H as [(Hs1 & Ht1 & Hp1) HT1].
  split; [|split; [exact Ht1|split]].
  - split; [exact Hs1|]. split; [lia|]. intros i j t Hin. rewrite Ht1.
    destruct (Hp1 i j t Hin) as [H|[H1 H2]]; [exact H|]. destruct H2 as [H2 _]. lia.
  - intros id Hin. destruct (D id) as [_ D2]. destruct (D2 Hin) as [[]|H]. exact H.
  - intros t Hin. destruct (HT1 t Hin) as [H|[H|[[]|H]]]; [left; exact H|right; left; exact H|right; right; exact H].
Qed.

End Sweep.

Ltac Zify.zify_post_hook ::= Z.div_mod_to_equations.

(* ---- the statements used by the property file *)
Theorem sweep_correct cur w now :
  Inv w -> wtime w <= now < two63 -> (forall id, 0 <= cur id < two63) ->
  let r := wheel_delete_expired cur w now in
  Inv (fst r) /\ wtime (fst r) = now /\
  (forall id, In id (snd r) -> cur id < now) /\
  (forall t, tin w t -> In (tid t) (snd r) \/ tin (fst r) t \/ now <= cur (tid t)).
Proof.
  intros HI Hn Hc. destruct HI as (Hs & HT & Hp).
  exact (sweep_correct_sec cur (wtime w) now (conj HT (proj1 Hn)) (proj2 Hn) Hc w (conj Hs (conj HT Hp)) eq_refl).
Qed.

(* C13 at the level of the wheel: a linked timer whose placement key (the later of its deadline and
   the wheel's time when it was linked) lies in a tick before [now]'s, and whose current deadline is
   before [now], is expired by the sweep at [now] *)
Theorem sweep_complete cur w now t :
  Inv w -> wtime w <= now < two63 -> (forall id, 0 <= cur id < two63) ->
  tin w t -> tkey t / P0 < now / P0 -> cur (tid t) < now ->
  In (tid t) (snd (wheel_delete_expired cur w now)).
Proof.
  intros HI Hn Hc Hin Hk Hd.
  destruct (sweep_correct cur w now HI Hn Hc) as ((_ & _ & Hp) & Ht & _ & Hl).
  destruct (Hl t Hin) as [H|[(i & j & H)|H]]; [exact H| |lia].
  exfalso. specialize (Hp i j t H). rewrite Ht in Hp. destruct Hp as (H1 & H2 & H3 & H4 & H5 & H6).
  assert (now / P0 <= tkey t / P0); [|lia].
  destruct (Nat.eq_dec i 0) as [->|N0]; [apply H5; reflexivity|].
  specialize (H6 N0).
  destruct i as [|[|[|[|[|i]]]]]; try lia; unfold PW, P0, P1, P2, P3, P4, two63 in *; cbn [nth] in *; lia.
Qed.

(* ---- every reachable wheel *)
Inductive wop :=
| WLink (id e : Z)                     (* Delete (a no-op when not linked) + Add under deadline e *)
| WUnlink (id : Z)
| WSweep (cur : Z -> Z) (now : Z).     (* DeleteExpired at [now]; [cur] = the deadlines at that moment *)

Definition wstep (w : wheel) (o : wop) : wheel :=
  match o with
  | WLink id e => wheel_add (wheel_delete w id) id e
  | WUnlink id => wheel_delete w id
  | WSweep cur now => fst (wheel_delete_expired cur w now)
  end.

(* deadlines are non-negative int64 values; the clock is monotone *)
Definition wop_ok (w : wheel) (o : wop) : Prop :=
  match o with
  | WLink _ e => 0 <= e < two63
  | WUnlink _ => True
  | WSweep cur now => wtime w <= now < two63 /\ forall id, 0 <= cur id < two63
  end.

Fixpoint wrun_ok (w : wheel) (ops : list wop) : Prop :=
  match ops with
  | [] => True
  | o :: ops' => wop_ok w o /\ wrun_ok (wstep w o) ops'
  end.

Definition Inv2 (w : wheel) : Prop := Inv w /\ wtime w < two63.

Lemma wstep_inv w o : Inv2 w -> wop_ok w o -> Inv2 (wstep w o).
Proof.
  intros [HI HT] Hok. destruct o as [id e|id|cur now]; cbn [wstep wop_ok] in *.
  - split; [apply wheel_add_inv; [apply wheel_delete_inv; exact HI|exact Hok|exact HT]|].
    rewrite wheel_add_time. exact HT.
  - split; [apply wheel_delete_inv; exact HI|exact HT].
  - destruct Hok as [Hn Hc]. destruct (sweep_correct cur w now HI Hn Hc) as (H1 & H2 & _).
    split; [exact H1|]. rewrite H2. apply Hn.
Qed.

Theorem wheel_run_inv ops : forall w, Inv2 w -> wrun_ok w ops -> Inv2 (fold_left wstep ops w).
Proof.
  induction ops as [|o ops IH]; intros w HI Hok; cbn [fold_left]; [exact HI|].
  destruct Hok as [H1 H2]. apply IH; [apply wstep_inv; assumption|exact H2].
Qed.

Lemma inv2_wheel0 : Inv2 wheel0.
Proof. split; [exact inv_wheel0|cbn; unfold two63; lia]. Qed.

(* what a link records: the timer's key is the later of the deadline and the wheel's time *)
Lemma link_key w id e : Inv2 w -> 0 <= e < two63 ->
  tin (wstep w (WLink id e)) (mkTimer id (Z.max e (wtime w))).
Proof.
  intros [(Hs & HT & Hp) HT2] He. cbn [wstep].
  destruct (wheel_add_bucket (wheel_delete w id) id e) as (lvl & slot & _ & B);
    [apply wheel_delete_shape; exact Hs|exact HT|exact He|exact HT2|].
  exists lvl, slot. rewrite B. rewrite !Nat.eqb_refl. cbn [andb]. apply in_app_iff. right. left.
  f_equal. unfold clamp. cbn [wtime wheel_delete]. destruct (e <? wtime w) eqn:E; lia.
Qed.

(* C13 for every wheel reachable by any sequence of links, unlinks and sweeps with any clock jumps *)
Theorem wheel_reachable_sweep_complete ops cur now t :
  wrun_ok wheel0 ops ->
  let w := fold_left wstep ops wheel0 in
  wtime w <= now < two63 -> (forall id, 0 <= cur id < two63) ->
  tin w t -> tkey t / P0 < now / P0 -> cur (tid t) < now ->
  In (tid t) (snd (wheel_delete_expired cur w now)).
Proof.
  intros Hok w Hn Hc Hin Hk Hd.
  destruct (wheel_run_inv ops wheel0 inv2_wheel0 Hok) as [HI _].
  apply sweep_complete; assumption.
Qed.

(* and only due timers are expired; nothing else disappears *)
Theorem wheel_reachable_sweep_sound ops cur now :
  wrun_ok wheel0 ops ->
  let w := fold_left wstep ops wheel0 in
  wtime w <= now < two63 -> (forall id, 0 <= cur id < two63) ->
  (forall id, In id (snd (wheel_delete_expired cur w now)) -> cur id < now) /\
  (forall t, tin w t -> In (tid t) (snd (wheel_delete_expired cur w now)) \/
                        tin (fst (wheel_delete_expired cur w now)) t \/ now <= cur (tid t)).
Proof.
  intros Hok w Hn Hc.
  destruct (wheel_run_inv ops wheel0 inv2_wheel0 Hok) as [HI _].
  destruct (sweep_correct cur w now HI Hn Hc) as (_ & _ & H3 & H4). split; assumption.
Qed.

(* tin is membership in the wheel's timer list *)
Lemma tin_timers w t : shape w -> (tin w t <-> In t (wheel_timers w)).
Proof.
  intros Hs. unfold tin, wheel_timers, bucket. split.
  - intros (i & j & H). apply in_concat. exists (nth j (nth i (wlevels w) []) []). split; [|exact H].
    apply in_concat. exists (nth i (wlevels w) []).
    assert (Hr := in_bucket_range w i j t Hs H). destruct Hr as [Hi Hj].
    split; apply nth_In; [rewrite (shape_len w Hs); exact Hi|rewrite (shape_level w i Hs); exact Hj].
  - intros H. apply in_concat in H. destruct H as (b & Hb & Ht). apply in_concat in Hb. destruct Hb as (l & Hl & Hb).
    destruct (In_nth _ _ [] Hl) as (i & Hi & <-). destruct (In_nth _ _ [] Hb) as (j & Hj & <-).
    exists i, j. exact Ht.
Qed.
