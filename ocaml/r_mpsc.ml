(* r_mpsc.ml — replays an "mpsc" engine trace on the extracted chunked-queue model. *)
open Util
module M = Model

let run (path : string) : unit =
  let q = ref (M.mpsc_new (mz_of_int 2) (mz_of_int 4)) in
  let pending : (M.nat * M.nat * M.z) option ref = ref None in   (* a reserved, unpublished slot *)
  let z = mz_of_string in
  iter_lines path (fun ln toks ->
      match toks with
      | [ "N"; i; m ] -> q := M.mpsc_new (z i) (z m); pending := None; count "queues"
      | [ "U"; v; ok ] ->
          count "pushes";
          let (q', b) = M.try_push !q (z v) in
          q := q';
          if (if b then "1" else "0") <> ok then begin
            mismatch "mpsc" ln "TryPush(%s) model=%b impl=%s (model holds %s of %s)" v b ok (string_of_mz (M.mpsc_size q')) (string_of_mz (M.mpsc_capacity q'));
            if ok = "0" then propfail "C16" "refused-not-full" ln "offer refused while the model queue holds %s of %s" (string_of_mz (M.mpsc_size q')) (string_of_mz (M.mpsc_capacity q'))
          end
      | [ "AP"; v ] ->
          count "pushes_parked";
          (match M.push_reserve !q (z v) with
           | (q', M.RSlot (b, off)) -> q := q'; pending := Some (b, off, z v)
           | (q', _) -> q := q'; mismatch "mpsc" ln "the implementation reached the slot store but the model's push did not take the plain path")
      | [ "AR"; ok ] ->
          (match !pending with
           | Some (b, off, v) -> q := M.push_publish !q b off v; pending := None;
               if ok <> "1" then mismatch "mpsc" ln "resumed push returned %s" ok
           | None -> mismatch "mpsc" ln "resume without a parked push in the model")
      | [ "OW" ] ->
          count "pops_waiting";
          (match M.try_pop !q with
           | (_, M.PopWait) -> ()
           | (_, r) ->
               mismatch "mpsc" ln "the implementation's pop waited but the model's pop would return (%s)"
                 (match r with M.PopEmpty -> "empty" | M.PopElem v -> string_of_mz v | M.PopBroken -> "broken" | M.PopWait -> "wait"))
      | [ "O"; v; ok ] ->
          count "pops";
          (match M.try_pop !q with
           | (q', M.PopElem mv) ->
               q := q';
               if ok <> "1" || string_of_mz mv <> v then begin
                 mismatch "mpsc" ln "TryPop model=%s impl=(%s,%s)" (string_of_mz mv) v ok;
                 propfail "C16" "fifo-order" ln "pop returned (%s,%s); the FIFO model holds %s at its head" v ok (string_of_mz mv)
               end
           | (q', M.PopEmpty) -> q := q'; if ok <> "0" then mismatch "mpsc" ln "TryPop model=empty impl=(%s,%s)" v ok
           | (_, M.PopWait) ->
               mismatch "mpsc" ln "TryPop returned (%s,%s) while the head slot is reserved but unpublished" v ok;
               propfail "C16" "phantom" ln "pop returned (%s,%s) while the next event is reserved but not yet published" v ok
           | (_, M.PopBroken) -> mismatch "mpsc" ln "model queue broken")
      | [ "S"; p; c; l; pm; cm; pl; cl ] ->
          count "states_compared";
          let m = !q in
          let ms = Printf.sprintf "%s %s %s %s %s %s %s" (string_of_mz (M.pidx m)) (string_of_mz (M.cidx m)) (string_of_mz (M.plimit m))
                     (string_of_mz (M.pmask m)) (string_of_mz (M.cmask m)) (string_of_mz (M.buf_len m (M.pbuf m))) (string_of_mz (M.buf_len m (M.cbuf m))) in
          let is = Printf.sprintf "%s %s %s %s %s %s %s" p c l pm cm pl cl in
          if ms <> is then mismatch "mpsc" ln "indices (producer consumer limit pmask cmask plen clen) model=[%s] impl=[%s]" ms is
      | _ -> mismatch "mpsc" ln "unparsed trace line")
