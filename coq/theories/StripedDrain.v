(* StripedDrain.v — what a drain of the striped buffer delivers, at the level of the table model
   (Striped.v): DrainTo visits the rings of the current table; if from each of them it takes everything
   recorded in it (what Ring.v's quiescent_drain establishes for one ring), then over the whole buffer it
   delivers every element whose Add succeeded exactly once and nothing else — in every reachable state,
   for every schedule of the Adds. *)
From Coq Require Import List Arith Bool ZArith Lia Permutation.
Import ListNotations.
From Otter Require Import Base Striped StripedProofs.
Local Open Scope nat_scope.

Definition drain_all (s : sstate) : list Z := concat (map (fun r => nth r (rings s) []) (visible_rings s)).

Lemma visible_lt s r : SInv s -> In r (visible_rings s) -> r < length (rings s).
Proof.
  intros [_ (_ & _ & Hlt & _)] Hin. apply visible_spec in Hin. destruct Hin as (i & Hi).
  rewrite tbl_of_curtbl in Hi. exact (Hlt i r Hi).
Qed.

(* a duplicate-free list of the numbers below n that contains them all is a permutation of 0..n-1 *)
Lemma perm_seq l n : NoDup l -> (forall r, In r l -> r < n) -> (forall r, r < n -> In r l) -> Permutation l (seq 0 n).
Proof.
  intros Hnd Hlt Hall. apply NoDup_Permutation; [exact Hnd|apply seq_NoDup|].
  intros x. rewrite in_seq. split; [intros H; specialize (Hlt x H); lia|intros [_ H]; apply Hall; exact H].
Qed.

Lemma concat_map_nth_seq (rs : list (list Z)) : concat (map (fun r => nth r rs []) (seq 0 (length rs))) = concat rs.
Proof.
  assert (G : forall k, concat (map (fun r => nth r rs []) (seq k (length rs - k))) = concat (skipn k rs)).
  { intros k. remember (length rs - k) as m eqn:Em. revert k Em. induction m as [|m IH]; intros k Em.
    - cbn. rewrite skipn_all2 by lia. reflexivity.
    - cbn [seq map concat]. rewrite (IH (S k)) by lia.
      assert (Hk : k < length rs) by lia.
      clear IH Em. revert k Hk. induction rs as [|h t IHr]; intros k Hk; [cbn in Hk; lia|].
      destruct k as [|k]; [reflexivity|]. cbn [nth skipn]. apply IHr. cbn in Hk. lia. }
  specialize (G 0). rewrite Nat.sub_0_r in G. exact G.
Qed.

Lemma zcount_perm e l1 l2 : Permutation l1 l2 -> zcount e l1 = zcount e l2.
Proof.
  intros H. unfold zcount. induction H as [|x l l' _ IH|x y l|l l' l'' _ IH1 _ IH2]; cbn [filter].
  - reflexivity.
  - destruct (Z.eqb e x); cbn [length]; rewrite IH; reflexivity.
  - destruct (Z.eqb e x), (Z.eqb e y); reflexivity.
  - rewrite IH1. exact IH2.
Qed.

Lemma concat_map_perm {A} (f : nat -> list A) l1 l2 : Permutation l1 l2 -> Permutation (concat (map f l1)) (concat (map f l2)).
Proof.
  intros H. induction H as [|x l l' _ IH|x y l|l l' l'' _ IH1 _ IH2]; cbn [map concat].
  - constructor.
  - apply Permutation_app_head. exact IH.
  - rewrite !app_assoc. apply Permutation_app_tail. apply Permutation_app_comm.
  - exact (Permutation_trans IH1 IH2).
Qed.

Theorem drain_all_perm s : SInv s -> Permutation (drain_all s) (concat (rings s)).
Proof.
  intros I. unfold drain_all. rewrite <- (concat_map_nth_seq (rings s)). apply concat_map_perm.
  apply perm_seq; [apply visible_nodup; exact I|intros r Hr; apply (visible_lt s r I Hr)|apply no_lost_ring; exact I].
Qed.

Lemma SInv_sinit maxl elems idxs : SInv (sinit maxl elems idxs).
Proof. apply SInv_init. Qed.

(* every element is delivered by a complete drain exactly once if its Add succeeded (or has placed it and
   is about to return Success), and not at all otherwise *)
Theorem drain_delivers_exactly_the_recorded maxl elems idxs sched j t :
  NoDup elems -> length idxs = length elems ->
  let s := srun (sinit maxl elems idxs) sched in
  nth_error (sths s) j = Some t ->
  zcount (elem t) (drain_all s) = b2n (placed t).
Proof.
  intros Hnd Hlen s Hj.
  rewrite (zcount_perm _ _ _ (drain_all_perm s (SInv_run sched _ (SInv_sinit maxl elems idxs)))).
  exact (recorded_iff_success maxl elems idxs sched j t Hnd Hlen Hj).
Qed.
