package main

import (
	"fmt"
	"strings"

	otter "github.com/maypok86/otter/v2"
)

// Engine "sketch" (C18): drives the real sketch through VerifSketch with random and
// adversarial key streams over many capacities, logs the raw hash of every key so that the
// extracted Coq model can replay the same calls, and dumps the entire state after each call.
//
// Trace lines:
//   N                         new sketch
//   E m                       ensureCapacity(m)
//   I r                       increment(key with raw hash r)
//   Q r f                     frequency(key with raw hash r) returned f
//   A rc rv rnd b             admit(candidate rc, victim rv, rand rnd) returned b (0/1)
//   S size sample bmask init n w0 .. w(n-1)   full state after the preceding call
//   R64 x y / R32 x y         RoundUpPowerOf264(x)=y / RoundUpPowerOf2(x)=y
//   H x y z                   spread(x)=y rehash(x)=z
//   SA a b c                  SaturatedAdd(a,b)=c
func init() { engines["sketch"] = runSketch }

func dumpSketch(t *traceWriter, v *otter.VerifSketch) {
	tab := v.Table()
	var sb strings.Builder
	for _, w := range tab {
		fmt.Fprintf(&sb, " %d", w)
	}
	ini := 0
	if v.Initialized() {
		ini = 1
	}
	t.line("S %d %d %d %d %d%s", v.Size(), v.SampleSize(), v.BlockMask(), ini, len(tab), sb.String())
}

func runSketch(seed uint64, scale int, out string, _ string) *summary {
	r := &rng{s: seed}
	sum := newSummary("sketch", seed)
	t := newTrace(out)
	defer t.close()

	// pure kernels: boundary sweeps + random
	var xs []uint64
	for sh := 0; sh < 64; sh++ {
		p := uint64(1) << sh
		xs = append(xs, p-1, p, p+1)
	}
	xs = append(xs, 0, 3, 5, 6, 7, 9, 1000, ^uint64(0), ^uint64(0)-1)
	for i := 0; i < 200*scale; i++ {
		xs = append(xs, r.next()>>uint(r.intn(64)))
	}
	for _, x := range xs {
		t.line("R64 %d %d", x, otter.VerifRoundUpPowerOf264(x))
		t.line("R32 %d %d", uint32(x), otter.VerifRoundUpPowerOf2(uint32(x)))
		t.line("H %d %d %d", x, otter.VerifSpread(x), otter.VerifRehash(x))
		sum.Dist["kernel"]++
	}
	for i := 0; i < len(xs); i++ {
		a := int64(xs[i])
		b := int64(xs[(i*7+3)%len(xs)])
		t.line("SA %d %d %d", a, b, otter.VerifSaturatedAdd(a, b))
	}

	caps := []uint64{0, 1, 2, 3, 7, 8, 9, 10, 15, 16, 17, 31, 33, 63, 64, 65, 100, 127, 128, 129, 255, 257, 500, 1000, 1023, 1025, 4096, 5000, 1 << 14, 1<<16 + 1}
	nCases := 40 * scale
	seen := map[string]bool{}
	for c := 0; c < nCases; c++ {
		v := otter.NewVerifSketch()
		t.line("N")
		sum.Cases++
		capv := caps[r.intn(len(caps))]
		if c < len(caps) {
			capv = caps[c]
		}
		// before ensureCapacity: uninitialised -> all estimates are zero
		for k := 0; k < 3; k++ {
			v.Increment(k)
			t.line("I %d", v.Hash(k))
			f := v.Frequency(k)
			t.line("Q %d %d", v.Hash(k), f)
			if f != 0 {
				sum.fail("C18", "uninit-nonzero", "frequency != 0 before tracking is enabled", fmt.Sprintf("new sketch; increment(%d); frequency=%d", k, f))
			}
		}
		v.EnsureCapacity(capv)
		t.line("E %d", capv)
		dumpSketch(t, v)
		sum.Dist[fmt.Sprintf("cap_bucket_%d", bucketOf(capv))]++
		if capv == 0 {
			continue
		}
		nkeys := 1 + r.intn(40)
		if r.chance(30) {
			nkeys = 1 + r.intn(4)
		}
		if r.chance(20) {
			nkeys = 200 + r.intn(2000)
		}
		counts := map[int]uint64{}
		nops := 100 + r.intn(400)
		if capv >= 4096 {
			nops = 50 // large tables: every dump is big
		}
		lastSize := v.Size()
		for i := 0; i < nops; i++ {
			sum.Ops++
			switch x := r.intn(100); {
			case x < 70:
				k := r.intn(nkeys)
				if r.chance(40) {
					k = r.intn(1 + nkeys/8) // skew: heavy hitters
				}
				h := v.Hash(k)
				v.Increment(k)
				t.line("I %d", h)
				dumpSketch(t, v)
				sum.Dist["increment"]++
				sz := v.Size()
				counts[k] = min(15, counts[k]+1)
				if sz < lastSize || (lastSize+1 == v.SampleSize()) {
					// a reset happened (size hit sampleSize): every estimate was halved after
					// this increment was applied; the lower bounds halve with them
					for kk, cnt := range counts {
						counts[kk] = cnt / 2
					}
					sum.Dist["reset"]++
				}
				lastSize = sz
			case x < 85:
				k := r.intn(nkeys + 2)
				f := v.Frequency(k)
				t.line("Q %d %d", v.Hash(k), f)
				sum.Dist["frequency"]++
				want := counts[k]
				if f < want {
					sum.fail("C18", "undercount", "frequency below the number of recordings in this period",
						fmt.Sprintf("seed=%d case=%d cap=%d key=%d recorded>=%d frequency=%d", seed, c, capv, k, want, f))
				}
				if f > 15 {
					sum.fail("C18", "over15", "frequency above 15", fmt.Sprintf("seed=%d case=%d key=%d frequency=%d", seed, c, k, f))
				}
				if want > 0 {
					seen[fmt.Sprintf("f%d/%d", f, want)] = true
				}
			case x < 93:
				a, b := r.intn(nkeys+1), r.intn(nkeys+1)
				rnd := uint32(r.next())
				if r.chance(50) {
					rnd &^= 127 // force the random-admission bit pattern
				}
				fa, fb := v.Frequency(a), v.Frequency(b)
				res := otter.VerifAdmit(v, a, b, rnd)
				bi := 0
				if res {
					bi = 1
				}
				t.line("A %d %d %d %d", v.Hash(a), v.Hash(b), rnd, bi)
				sum.Dist["admit"]++
				if res && !(fa > fb || (fa >= 6 && rnd&127 == 0)) {
					sum.fail("C18", "admit-unjustified", "candidate admitted without a strictly greater estimate",
						fmt.Sprintf("seed=%d case=%d cand=%d(f=%d) victim=%d(f=%d) rnd=%d", seed, c, a, fa, b, fb, rnd))
				}
				if !res && fa > fb {
					sum.fail("C18", "admit-refused", "candidate with a strictly greater estimate rejected",
						fmt.Sprintf("seed=%d case=%d cand=%d(f=%d) victim=%d(f=%d)", seed, c, a, fa, b, fb))
				}
				seen[fmt.Sprintf("adm%v/%d/%d", res, fa, fb)] = true
			case x < 96:
				// explicit aging step: every estimate halves
				before := map[int]uint64{}
				for k := 0; k < min(nkeys, 16); k++ {
					before[k] = v.Frequency(k)
				}
				v.Reset()
				t.line("X")
				dumpSketch(t, v)
				sum.Dist["reset_explicit"]++
				for k, f0 := range before {
					if f1 := v.Frequency(k); f1 != f0/2 {
						sum.fail("C18", "reset-not-half", "aging step did not halve an estimate",
							fmt.Sprintf("seed=%d case=%d key=%d before=%d after=%d", seed, c, k, f0, f1))
					}
				}
				for kk, cnt := range counts {
					counts[kk] = cnt / 2
				}
				lastSize = v.Size()
			default:
				m := caps[r.intn(len(caps))]
				if m > 5000 {
					m = 5000
				}
				oldLen := len(v.Table())
				v.EnsureCapacity(m)
				t.line("E %d", m)
				dumpSketch(t, v)
				sum.Dist["ensure"]++
				if len(v.Table()) != oldLen {
					counts = map[int]uint64{}
					lastSize = 0
				}
			}
		}
		if len(sum.Samples) < 3 {
			sum.Samples = append(sum.Samples, fmt.Sprintf("case %d: cap=%d keys=%d ops=%d tableLen=%d", c, capv, nkeys, nops, len(v.Table())))
		}
	}
	sum.Distinct = len(seen)
	return sum
}

func bucketOf(c uint64) int {
	b := 0
	for c > 0 {
		c >>= 1
		b++
	}
	return b
}
