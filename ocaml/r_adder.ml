(* r_adder.ml — replays an "adder" engine trace on the extracted small-step model of the striped
   counter (Adder.v): every macro step of the implementation (an Add up to its park between the
   stripe's load and the CAS, one CAS attempt, a Value up to its next stripe) is expanded into the
   model's atomic steps; the probe indices observed at the hook are the model's inputs. *)
open Util
module M = Model

let run (path : string) : unit =
  let a = ref (M.adder_init (nat_of_int 1) (nat_of_int 1)) in
  let z = mz_of_string in
  let th g = List.nth (M.aths !a) g in
  let go g fresh = a := M.astep !a (nat_of_int g, M.IGo (nat_of_int fresh)) in
  let nstripes () = List.length (M.cells !a) in
  iter_lines path (fun ln toks ->
      match toks with
      | [ "N"; ns; nt ] -> a := M.adder_init (nat_of_int (int_of_string ns)) (nat_of_int (int_of_string nt)); count "adders"
      | [ "a"; g; d; i ] ->
          let g = int_of_string g in
          count "adds";
          a := M.astep !a (nat_of_int g, M.IAdd (z d, nat_of_int (int_of_string i)));
          go g 0;
          (match th g with
           | M.TCas (_, mi, _) -> if int_of_nat mi <> int_of_string i then mismatch "adder" ln "stripe model=%d impl=%s" (int_of_nat mi) i
           | _ -> mismatch "adder" ln "an invoked Add is not at its CAS in the model")
      | "s" :: g :: ok :: rest ->
          let g = int_of_string g in
          let fresh = match rest with [ i ] -> int_of_string i | _ -> 0 in
          (match th g with
           | M.TCas _ -> ()
           | _ -> mismatch "adder" ln "the implementation attempted a CAS but the model's thread is not at one");
          go g fresh;
          (match th g, ok with
           | M.TDone _, "1" -> count "cas_ok"
           | M.TLoad _, "0" ->
               count "cas_failed";
               go g 0;
               (match th g with
                | M.TCas (_, mi, _) -> if int_of_nat mi <> fresh then mismatch "adder" ln "retry stripe model=%d impl=%d" (int_of_nat mi) fresh
                | _ -> mismatch "adder" ln "retry did not reach its CAS in the model")
           | M.TDone _, _ -> mismatch "adder" ln "CAS succeeded in the model, failed in the implementation"
           | M.TLoad _, _ -> mismatch "adder" ln "CAS failed in the model, succeeded in the implementation"
           | _ -> mismatch "adder" ln "unexpected thread state after a CAS")
      | [ "v"; g ] ->
          count "values";
          a := M.astep !a (nat_of_int (int_of_string g), M.IScan)
      | "w" :: g :: ret :: rest ->
          let g = int_of_string g in
          go g 0;
          (match th g with
           | M.TScan (i, _, _) when int_of_nat i >= nstripes () -> go g 0
           | _ -> ());
          (match th g, ret, rest with
           | M.TScan _, "0", _ -> count "scan_steps"
           | M.TVal (v, _), "1", [ iv ] ->
               count "values_compared";
               if string_of_mz v <> iv then mismatch "adder" ln "Value model=%s impl=%s" (string_of_mz v) iv
           | M.TVal _, _, _ -> mismatch "adder" ln "Value returned in the model but not in the implementation"
           | M.TScan _, _, _ -> mismatch "adder" ln "Value returned in the implementation but not in the model"
           | _ -> mismatch "adder" ln "unexpected thread state during a scan")
      | "S" :: cells ->
          count "states_compared";
          let mc = List.map string_of_mz (M.cells !a) in
          if mc <> cells then mismatch "adder" ln "stripes model=[%s] impl=[%s]" (String.concat " " mc) (String.concat " " cells)
      | [ "F"; v; total ] ->
          (* the theorem's quiescent statement, evaluated on the implementation's own numbers *)
          let two64 = Z.shift_left Z.one 64 in
          let sm = List.fold_left (fun acc (_, d) -> Z.add acc (z_of_mz d)) Z.zero (M.started !a) in
          if Z.to_string (Z.erem sm two64) <> total then mismatch "adder" ln "sum of invoked deltas model=%s impl=%s" (Z.to_string (Z.erem sm two64)) total;
          if v <> total then propfail "C20" "adder-total" ln "quiescent Value()=%s but the deltas added sum to %s" v total
      | _ -> mismatch "adder" ln "unparsed trace line")
