(* main.ml — replay <engine> <trace>: runs the extracted model on the implementation's trace. *)
let () =
  if Array.length Sys.argv < 3 then (prerr_endline "usage: replay <engine> <trace>"; exit 2);
  let engine = Sys.argv.(1) and path = Sys.argv.(2) in
  (match engine with
   | "sketch" -> R_sketch.run path
   | "seq" | "maint" -> R_seq.run path
   | "ring" -> R_ring.run path
   | "mpsc" -> R_mpsc.run path
   | "hmap" -> R_hmap.run path
   | "load" -> R_load.run path
   | "lin" -> R_lin.run path
   | "sched" -> R_sched.run path
   | "stripe" -> R_stripe.run path
   | "tbl" -> R_tbl.run path
   | "adder" -> R_adder.run path
   | _ -> prerr_endline ("unknown engine " ^ engine); exit 2);
  Util.print_stats ();
  Printf.printf "RESULT mismatches=%d propfails=%d\n" !Util.mismatches !Util.propfails
