(* C19 — Saving and reloading a cache reproduces its live contents and deadlines.
   Model: Persist.v — LoadCacheFrom's per-entry program over the concrete cache model;
   PersistAll.v — the loops of SaveCacheTo and LoadCacheFrom around it, with their size cut-off.
   gob is the identity on entries (the seq engine round-trips every case through the real encoder). *)
From Otter Require Import Base Seq Spec SeqRefine SeqFacts Persist PersistAll.

(* an entry not expired at load time is loaded with its key, value and saved expiration deadline,
   for any number of warm-up reads and any read calculator (access-reset included) *)
Theorem C19_entry_roundtrip : forall c, cfg_ok c -> forall s e reads now,
  with_exp c = true -> time_ok now -> now < sv_exp e < MaxInt64 -> lookup (sv_key e) (cmap s) = None ->
  exists n, lookup (sv_key e) (cmap (load_entry c s e reads now)) = Some n /\ nval n = sv_val e /\ nexp n = sv_exp e.
Proof. exact load_entry_exp. Qed.
Print Assumptions C19_entry_roundtrip.

(* nothing that is expired at load time (deadline <= now) is loaded *)
Theorem C19_nothing_expired_loaded : forall c s e reads now,
  with_exp c = true -> sv_exp e <= now -> load_entry c s e reads now = s.
Proof. exact load_entry_skips_expired. Qed.
Print Assumptions C19_nothing_expired_loaded.

(* the whole file: every entry the loading loop takes (not expired at load time, not cut off) is present
   afterwards with its key, value and saved deadline, whatever was loaded before and after it *)
Theorem C19_file_roundtrip : forall c, cfg_ok c -> forall maxi reads now,
  with_exp c = true -> time_ok now ->
  forall es s size e,
  NoDup (map sv_key es) -> (forall k, In k (map sv_key es) -> lookup k (cmap s) = None) ->
  In e (taken c maxi size es now) -> sv_exp e < MaxInt64 ->
  exists n, lookup (sv_key e) (cmap (load_all c maxi reads s size es now)) = Some n /\ nval n = sv_val e /\ nexp n = sv_exp e.
Proof. intros c CO. exact (load_all_present c CO). Qed.
Print Assumptions C19_file_roundtrip.

(* nothing that was absent is loaded: keys that are not in the file are untouched, and the loop takes only
   entries of the file *)
Theorem C19_nothing_absent_loaded : forall c maxi reads now es s size k,
  ~ In k (map sv_key es) -> lookup k (cmap (load_all c maxi reads s size es now)) = lookup k (cmap s).
Proof. intros. apply load_all_frame. assumption. Qed.
Print Assumptions C19_nothing_absent_loaded.

Theorem C19_taken_from_file : forall c maxi now es size e, In e (taken c maxi size es now) -> In e es.
Proof. exact taken_incl. Qed.
Print Assumptions C19_taken_from_file.

(* everything is loaded (and was saved) when the contents fit the maximum; pinned entries are never cut off *)
Theorem C19_all_loaded_when_fits : forall c maxi now es size,
  (forall e, In e es -> 0 <= sv_weight e) ->
  size + fold_right (fun e acc => sv_weight e + acc) 0 es <= maxi ->
  taken c maxi size es now = filter (fun e => negb (with_exp c && (sv_exp e <=? now))) es.
Proof. exact taken_all_when_fits. Qed.
Print Assumptions C19_all_loaded_when_fits.

Theorem C19_all_saved_when_fits : forall maxi hot size,
  (forall e, In e hot -> 0 <= sv_weight e) ->
  size + fold_right (fun e acc => sv_weight e + acc) 0 hot <= maxi ->
  save_list maxi size hot = hot.
Proof. exact save_list_all_when_fits. Qed.
Print Assumptions C19_all_saved_when_fits.

Theorem C19_pinned_always_saved : forall maxi hot size e, In e hot -> sv_weight e = 0 -> In e (save_list maxi size hot).
Proof. exact save_list_keeps_pinned. Qed.
Print Assumptions C19_pinned_always_saved.

Example C19_nonvacuous :
  let c := mkCfg true true false false (fun _ _ => 1) (fun _ _ _ => 100) (fun _ _ _ _ => 100) (fun _ _ _ => 100)
                 (fun _ _ _ => 30) (fun _ _ _ _ => 30) (fun _ _ _ _ => 30) (fun _ _ cur => cur) in
  let s := load_entry c cstate0 (mkSaved 1 11 1 5000 4000) 2 2000 in
  match lookup 1 (cmap s) with Some n => (nval n, nexp n, nrefr n) | None => (0, 0, 0) end = (11, 5000, 4000) /\
  load_entry c cstate0 (mkSaved 1 11 1 2000 4000) 2 2000 = cstate0.
Proof. vm_compute. split; reflexivity. Qed.
