(* MpscFacts.v — first facts about the chunked queue model (C16). The FIFO refinement over all
   push/pop sequences is checked by the correspondence engine; see DESIGN section 5 (C16). *)
From Otter Require Import Base Sketch Mpsc.
From Coq Require Import ZifyBool.
Local Open Scope Z_scope.

(* an offer is refused only when the queue holds its maximum number of events *)
Lemma refuse_only_when_full q v q' :
  push_reserve q v = (q', RFull) -> q' = q /\ maxcap q - (pidx q - cidx q) <= 0.
Proof.
  unfold push_reserve. destruct (plimit q <=? pidx q); [|intros H; discriminate H].
  destruct (cidx q + cur_buf_capacity q (pmask q) >? pidx q); [intros H; discriminate H|].
  destruct (maxcap q - (pidx q - cidx q) <=? 0) eqn:E; [|intros H; discriminate H].
  intros H. injection H as <-. split; [reflexivity|lia].
Qed.

(* the consumer reports "empty" only when its index has caught up with the producers' index; a
   reserved but unpublished slot makes it wait *)
Lemma pop_empty_only_when_caught_up q q' : try_pop q = (q', PopEmpty) -> cidx q = pidx q.
Proof.
  unfold try_pop. destruct (buf_get q (cbuf q) (offset_of (cidx q) (cmask q))) as [|v| |b].
  - destruct (cidx q =? pidx q) eqn:E; [intros _; lia|intros H; discriminate H].
  - intros H; discriminate H.
  - destruct (buf_get q (cbuf q) (next_array_offset (cmask q))) as [|?| |nb]; try (intros H; discriminate H).
    destruct (buf_get _ nb _); intros H; discriminate H.
  - intros H; discriminate H.
Qed.

Lemma pop_waits_for_reserved_slot q :
  buf_get q (cbuf q) (offset_of (cidx q) (cmask q)) = SNil -> cidx q <> pidx q -> try_pop q = (q, PopWait).
Proof.
  intros H Hne. unfold try_pop. rewrite H. replace (cidx q =? pidx q) with false by lia. reflexivity.
Qed.

(* a pop never invents an element: what it returns was stored in the slot it read *)
Lemma pop_returns_stored q q' v :
  try_pop q = (q', PopElem v) ->
  buf_get q (cbuf q) (offset_of (cidx q) (cmask q)) = SElem v \/
  buf_get q (cbuf q) (offset_of (cidx q) (cmask q)) = SJump.
Proof.
  unfold try_pop. destruct (buf_get q (cbuf q) (offset_of (cidx q) (cmask q))) as [|w| |b].
  - destruct (cidx q =? pidx q); intros H; discriminate H.
  - intros H. injection H as _ <-. left; reflexivity.
  - intros _. right; reflexivity.
  - intros H; discriminate H.
Qed.

(* indices only ever advance by two, and only on success *)
Lemma pop_index q q' r : try_pop q = (q', r) ->
  cidx q' = (match r with PopElem _ => cidx q + 2 | _ => cidx q end) /\ pidx q' = pidx q.
Proof.
  unfold try_pop. destruct (buf_get q (cbuf q) (offset_of (cidx q) (cmask q))) as [|w| |b].
  - destruct (cidx q =? pidx q); intros H; injection H as <- <-; auto.
  - intros H; injection H as <- <-. auto.
  - destruct (buf_get q (cbuf q) (next_array_offset (cmask q))) as [|?| |nb]; try (intros H; injection H as <- <-; auto).
    destruct (buf_get _ nb _); intros H; injection H as <- <-; auto.
  - intros H; injection H as <- <-; auto.
Qed.
