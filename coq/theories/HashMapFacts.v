(* HashMapFacts.v — the SWAR byte search of the hash table never misses a matching meta byte. *)
From Otter Require Import Base HashMap.
From Coq Require Import ZifyBool.
Local Open Scope Z_scope.

Definition K01 : Z := 0x0101010101010101.

(* the low (i+1) bytes of 0x0101..01 *)
Lemma K01_low i : 0 <= i < 8 -> 2 ^ (8 * i) <= K01 mod 2 ^ (8 * i + 8) < 2 ^ (8 * i + 1).
Proof.
  intros Hi. assert (C : i = 0 \/ i = 1 \/ i = 2 \/ i = 3 \/ i = 4 \/ i = 5 \/ i = 6 \/ i = 7) by lia.
  destruct C as [->|[->|[->|[->|[->|[->|[->| ->]]]]]]]; vm_compute; split; congruence.
Qed.

Lemma testbit_high x n : 0 <= n -> 2 ^ n <= x < 2 ^ (n + 1) -> Z.testbit x n = true.
Proof.
  intros Hn Hx. rewrite Z.testbit_true by assumption.
  assert (E : x / 2 ^ n = 1).
  { symmetry. apply Z.div_unique with (r := x - 2 ^ n); [left|]; rewrite ?Z.pow_succ_r in * by lia;
      replace (2 ^ (n + 1)) with (2 * 2 ^ n) in Hx by (rewrite Z.pow_add_r by lia; lia); lia. }
  rewrite E. reflexivity.
Qed.

Lemma testbit_mod_pow2 x n m : 0 <= n < m -> Z.testbit (x mod 2 ^ m) n = Z.testbit x n.
Proof. intros H. apply Z.mod_pow2_bits_low. lia. Qed.

(* a zero byte of w is always marked (bit 7 of that byte is set in markZeroBytes w) *)
Theorem mark_zero_byte w i :
  0 <= w < two64 -> 0 <= i < 8 -> (w / 2 ^ (8 * i)) mod 256 = 0 ->
  Z.testbit (markZeroBytes w) (8 * i + 7) = true.
Proof.
  intros Hw Hi Hz. unfold markZeroBytes.
  rewrite !Z.land_spec.
  (* the mask bit *)
  assert (Hm : Z.testbit 0x8080808080808080 (8 * i + 7) = true).
  { assert (C : i = 0 \/ i = 1 \/ i = 2 \/ i = 3 \/ i = 4 \/ i = 5 \/ i = 6 \/ i = 7) by lia.
    destruct C as [->|[->|[->|[->|[->|[->|[->| ->]]]]]]]; reflexivity. }
  rewrite Hm, andb_true_r.
  (* the ~w bit: byte i of w is zero, so bit 8i+7 of w is 0 *)
  assert (Hwbit : Z.testbit w (8 * i + 7) = false).
  { rewrite Z.testbit_false by lia.
    assert (P : 2 ^ (8 * i + 7) = 2 ^ (8 * i) * 128) by (rewrite Z.pow_add_r by lia; reflexivity).
    rewrite P. rewrite <- Z.div_div by (try apply Z.pow_pos_nonneg; lia).
    pose proof (Z.div_mod (w / 2 ^ (8 * i)) 256 ltac:(lia)) as D. rewrite Hz in D.
    set (q := w / 2 ^ (8 * i)) in *.
    replace q with (256 * (q / 256)) by lia.
    replace (256 * (q / 256) / 128) with (2 * (q / 256)).
    - rewrite Z.mul_comm. apply Z.mod_mul. lia.
    - symmetry. replace (256 * (q / 256)) with ((2 * (q / 256)) * 128) by lia. apply Z.div_mul. lia. }
  assert (Hnot : Z.testbit (Z.lxor w (two64 - 1)) (8 * i + 7) = true).
  { rewrite Z.lxor_spec, Hwbit. change (two64 - 1) with (Z.ones 64). rewrite Z.testbit_ones_nonneg by lia.
    replace (8 * i + 7 <? 64) with true by lia. reflexivity. }
  rewrite Hnot, andb_true_r.
  (* the subtraction: look at the low 8i+8 bits *)
  set (M := 2 ^ (8 * i + 8)).
  assert (HM : 0 < M) by (apply Z.pow_pos_nonneg; lia).
  rewrite <- (testbit_mod_pow2 _ (8 * i + 7) (8 * i + 8)) by lia. fold M.
  assert (Hdiv : (two64 | two64) /\ exists c, two64 = c * M).
  { split; [exists 1; lia|]. exists (2 ^ (64 - (8 * i + 8))). unfold M, two64.
    rewrite <- Z.pow_add_r by lia. replace (64 - (8 * i + 8) + (8 * i + 8)) with 64 by lia. reflexivity. }
  destruct Hdiv as [_ (c & Hc)].
  assert (E1 : wrapu (w - K01) mod M = (w - K01) mod M).
  { unfold wrapu. rewrite Hc. rewrite Z.mul_comm. rewrite Z.rem_mul_r by lia.
    rewrite Z.mul_comm. rewrite Z.mod_add by lia. apply Z.mod_mod. lia. }
  change 0x0101010101010101 with K01. rewrite E1.
  (* w mod M = lo < 2^(8i) *)
  set (B := 2 ^ (8 * i)). assert (HB : 0 < B) by (apply Z.pow_pos_nonneg; lia).
  assert (MB : M = B * 256) by (unfold M, B; rewrite Z.pow_add_r by lia; reflexivity).
  assert (Hlo : w mod M = w mod B).
  { rewrite MB. rewrite Z.rem_mul_r by lia. fold B in Hz. rewrite Hz. lia. }
  pose proof (Z.mod_pos_bound w B HB) as Lb.
  pose proof (K01_low i Hi) as Kb. fold M in Kb. fold B in Kb.
  assert (P7 : 2 ^ (8 * i + 7) = B * 128) by (unfold B; rewrite Z.pow_add_r by lia; reflexivity).
  assert (P1 : 2 ^ (8 * i + 1) = B * 2) by (unfold B; rewrite Z.pow_add_r by lia; reflexivity).
  rewrite P1 in Kb.
  assert (E2 : (w - K01) mod M = M + w mod B - K01 mod M).
  { rewrite Zminus_mod. rewrite Hlo.
    assert (R : w mod B - K01 mod M < 0) by lia.
    symmetry. apply Z.mod_unique with (q := -1); lia. }
  rewrite E2. apply testbit_high; [lia|].
  replace (8 * i + 7 + 1) with (8 * i + 8) by lia. fold M.
  rewrite P7. lia.
Qed.

(* xor with the broadcast hash byte turns a matching meta byte into a zero byte *)
Lemma lxor_byte a b i :
  0 <= i -> (Z.lxor a b / 2 ^ (8 * i)) mod 256 = Z.lxor ((a / 2 ^ (8 * i)) mod 256) ((b / 2 ^ (8 * i)) mod 256).
Proof.
  intros Hi. rewrite <- !Z.shiftr_div_pow2 by lia.
  change 256 with (2 ^ 8). rewrite <- !Z.land_ones by lia.
  rewrite Z.shiftr_lxor. apply Z.bits_inj'. intros n Hn.
  rewrite !Z.land_spec, !Z.lxor_spec, !Z.land_spec.
  destruct (Z.testbit (Z.ones 8) n); rewrite ?andb_true_r, ?andb_false_r; reflexivity.
Qed.
