package main

import (
	"fmt"
	"strings"
	"sync"
	"sync/atomic"
	"time"

	otter "github.com/maypok86/otter/v2"
	"github.com/maypok86/otter/v2/stats"
)

// Engine "adder" (C20): the striped counter behind every statistic (internal/xsync/adder.go).
//  (a) macro-step schedules on one adder with 1, 2, 4 or 8 stripes: every Add parks between the load
//      of its stripe and its CAS (hook 1, which reports the stripe), every Value before each stripe's
//      load (hook 2); exactly one goroutine is resumed at a time, so a second Add on the same stripe
//      makes the first one's CAS fail and pick another stripe.  The extracted small-step model
//      (Adder.v) replays every macro step — the probe indices are inputs read at the hook — and must
//      agree on the outcome of every CAS, every stripe after every step and every Value result.
//      Implementation oracle at the end of a case: Value() = sum of all deltas mod 2^64.
//  (b) free-running: stats.Counter under 2-16 recorders and a snapshot reader: every counter ends at
//      exactly what was recorded, and successive snapshots never decrease.
func init() { engines["adder"] = runAdder }

type adderEv struct {
	id  int
	idx uint32
}

type adderThread struct {
	arr  chan adderEv
	rel  chan struct{}
	done chan uint64
	mode int // 0 idle, 1 in Add (parked at hook 1), 2 in Value (parked at hook 2)
}

func runAdder(seed uint64, scale int, out string, _ string) *summary {
	r := &rng{s: seed}
	sum := newSummary("adder", seed)
	t := newTrace(out)
	defer t.close()
	seen := map[string]bool{}

	var mu sync.Mutex
	reg := map[int64]*adderThread{}
	otter.VerifSetAdderHook(func(id int, idx uint32) {
		g := goid()
		mu.Lock()
		th := reg[g]
		mu.Unlock()
		if th == nil {
			return
		}
		th.arr <- adderEv{id, idx}
		<-th.rel
	})
	defer otter.VerifSetAdderHook(nil)

	nCases := 120 * scale
	for cn := 0; cn < nCases; cn++ {
		nstripes := []uint32{1, 1, 2, 2, 4, 8}[r.intn(6)]
		nth := 2 + r.intn(4)
		a := otter.VerifNewAdder(nstripes)
		t.line("N %d %d", nstripes, nth)
		sum.Cases++
		ths := make([]*adderThread, nth)
		for i := range ths {
			ths[i] = &adderThread{}
		}
		dump := func() {
			var sb strings.Builder
			for _, c := range a.Cells() {
				fmt.Fprintf(&sb, " %d", c)
			}
			t.line("S%s", sb.String())
		}
		var total uint64
		spawn := func(th *adderThread, f func() uint64) adderEv {
			th.arr, th.rel, th.done = make(chan adderEv, 1), make(chan struct{}), make(chan uint64, 1)
			ready := make(chan struct{})
			go func() {
				g := goid()
				mu.Lock()
				reg[g] = th
				mu.Unlock()
				close(ready)
				v := f()
				mu.Lock()
				delete(reg, g)
				mu.Unlock()
				th.done <- v
			}()
			<-ready
			return <-th.arr // both calls reach a hook point before they can return
		}
		// resume: the next hook point of this thread, or its return
		resume := func(th *adderThread) (ev adderEv, val uint64, returned bool) {
			th.rel <- struct{}{}
			select {
			case ev = <-th.arr:
				return ev, 0, false
			case val = <-th.done:
				return adderEv{}, val, true
			case <-time.After(10 * time.Second):
				panic("adder engine: a resumed call neither reached a hook point nor returned")
			}
		}
		delta := func() uint64 {
			switch x := r.intn(100); {
			case x < 70:
				return uint64(1 + r.intn(9))
			case x < 85:
				return uint64(r.intn(1 << 30))
			case x < 95:
				return 1 << 62 // the uint64 total wraps after a few of these: the accounting is modulo 2^64
			default:
				return 0
			}
		}
		stepAdd := func(g int) {
			th := ths[g]
			ev, _, ret := resume(th)
			if ret {
				th.mode = 0
				t.line("s %d 1", g)
				sum.Dist["cas_ok"]++
				seen[fmt.Sprintf("cas_ok/%d", nstripes)] = true
			} else {
				t.line("s %d 0 %d", g, ev.idx)
				sum.Dist["cas_failed"]++
				seen[fmt.Sprintf("cas_failed/%d", nstripes)] = true
			}
		}
		stepScan := func(g int) {
			th := ths[g]
			_, v, ret := resume(th)
			if ret {
				th.mode = 0
				t.line("w %d 1 %d", g, v)
				sum.Dist["value_returned"]++
			} else {
				t.line("w %d 0", g)
			}
		}
		nops := 20 + r.intn(50)
		for i := 0; i < nops; i++ {
			sum.Ops++
			g := r.intn(nth)
			th := ths[g]
			switch th.mode {
			case 0:
				if r.intn(100) < 75 {
					d := delta()
					total += d
					ev := spawn(th, func() uint64 { a.Add(d); return 0 })
					th.mode = 1
					t.line("a %d %d %d", g, d, ev.idx)
					sum.Dist["add_invoked"]++
					if r.intn(100) < 40 { // uncontended: finish at once
						dump()
						stepAdd(g)
					}
				} else {
					spawn(th, func() uint64 { return a.Value() })
					th.mode = 2
					t.line("v %d", g)
					sum.Dist["value_invoked"]++
				}
			case 1:
				stepAdd(g)
			case 2:
				stepScan(g)
			}
			dump()
		}
		for g, th := range ths {
			for th.mode == 1 {
				stepAdd(g)
				dump()
			}
			for th.mode == 2 {
				stepScan(g)
				dump()
			}
		}
		v := a.Value()
		t.line("F %d %d", v, total)
		if v != total {
			sum.fail("C20", "adder-total", "with no Add in flight the counter differs from the sum of the deltas added (mod 2^64)",
				fmt.Sprintf("case %d stripes=%d Value=%d sum=%d", cn, nstripes, v, total))
		}
	}
	otter.VerifSetAdderHook(nil)

	// ---- (b) stats.Counter free-running
	rounds := 40 * scale
	for rd := 0; rd < rounds; rd++ {
		c := stats.NewCounter()
		ng := 2 + r.intn(15)
		per := 200 + r.intn(3000)
		var wg sync.WaitGroup
		var stop atomic.Bool
		var hits, misses, evs, evw atomic.Uint64
		bad := make(chan string, 1)
		go func() {
			var last stats.Stats
			for !stop.Load() {
				s := c.Snapshot()
				if s.Hits < last.Hits || s.Misses < last.Misses || s.Evictions < last.Evictions || s.EvictionWeight < last.EvictionWeight {
					select {
					case bad <- fmt.Sprintf("snapshot %+v after %+v", s, last):
					default:
					}
				}
				last = s
			}
		}()
		for g := 0; g < ng; g++ {
			wg.Add(1)
			k := uint64(g + 1)
			go func() {
				defer wg.Done()
				for i := 0; i < per; i++ {
					switch (uint64(i) + k) % 3 {
					case 0:
						c.RecordHits(int(k))
						hits.Add(k)
					case 1:
						c.RecordMisses(1)
						misses.Add(1)
					default:
						c.RecordEviction(uint32(k))
						evs.Add(1)
						evw.Add(k)
					}
				}
			}()
		}
		wg.Wait()
		stop.Store(true)
		s := c.Snapshot()
		sum.Cases++
		sum.Ops += ng * per
		sum.Dist["counter_rounds"]++
		seen[fmt.Sprintf("counter/%d", ng)] = true
		if s.Hits != hits.Load() || s.Misses != misses.Load() || s.Evictions != evs.Load() || s.EvictionWeight != evw.Load() {
			sum.fail("C20", "counter-total", "a quiescent stats.Counter differs from what was recorded",
				fmt.Sprintf("round %d recorders=%d snapshot=%+v recorded hits=%d misses=%d evictions=%d weight=%d", rd, ng, s, hits.Load(), misses.Load(), evs.Load(), evw.Load()))
		}
		select {
		case m := <-bad:
			sum.fail("C20", "counter-decreased", "a statistic decreased between two successive snapshots", fmt.Sprintf("round %d: %s", rd, m))
		default:
		}
	}
	sum.Distinct = len(seen)
	return sum
}
