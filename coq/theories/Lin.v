(* Lin.v — concurrent key-value operations at the granularity of their atomic index actions.

   Every public operation is one atomic action on the key index (one hashmap.Get or one
   hashmap.Compute, see C15 for their atomicity), except ComputeIfAbsent and ComputeIfPresent, which
   are a read followed — when the read does not decide the result — by a Compute.  Threads run
   lists of operations; a schedule picks which thread performs its next action.  Each completed
   operation is logged at its DECISIVE action (the only action of a one-action operation; the read
   of a ComputeIfAbsent that hits / ComputeIfPresent that misses; otherwise the Compute).

   Theorem (LinProofs.v): replaying the log sequentially with the sequential model [Seq.step]
   yields the same return values and the same table — i.e. the order of decisive actions is a
   linearization, and since a decisive action lies between its operation's invocation and response
   it respects real-time order.  Configuration: no expiration calculator (the read-extension of
   deadlines is a second atomic access; see DESIGN, C02). *)
From Otter Require Import Base Seq.

(* what a thread is doing *)
Inductive tstate :=
| TIdle (todo : list op)
| TMid (o : op) (todo : list op).        (* the read phase of a two-phase operation did not decide *)

Record lsys := mkLsys {
  shared : cstate;
  threads : list tstate;
  linlog : list (op * ret)       (* completed operations at their decisive action, in order *)
}.

Definition set_thread (ts : list tstate) (i : nat) (t : tstate) : list tstate := upd i t ts.

(* the Compute of the second phase, as cache_impl.go wraps the user function *)
Definition phase2 (c : cfg) (s : cstate) (o : op) : cstate * result :=
  match o with
  | OComputeIfAbsent k f now =>
      do_compute c s k (fun found old => if found then RRes old OpCancel else f tt) now false
  | OComputeIfPresent k f now =>
      do_compute c s k (fun found old => if found then f old else RRes 0 OpCancel) now false
  | _ => step c s o
  end.

(* one action of thread i *)
Definition lin_step (c : cfg) (sys : lsys) (i : nat) : lsys :=
  match nth_error (threads sys) i with
  | None => sys
  | Some (TIdle []) => sys
  | Some (TIdle (o :: todo)) =>
      match o with
      | OComputeIfAbsent k f now =>
          let '(s1, got) := get_node c (shared sys) k now in
          match got with
          | Some n => mkLsys s1 (set_thread (threads sys) i (TIdle todo)) (linlog sys ++ [(o, RVal (nval n) true)])
          | None => mkLsys s1 (set_thread (threads sys) i (TMid o todo)) (linlog sys)
          end
      | OComputeIfPresent k f now =>
          let '(s1, got) := get_node c (shared sys) k now in
          match got with
          | None => mkLsys s1 (set_thread (threads sys) i (TIdle todo)) (linlog sys ++ [(o, RVal 0 false)])
          | Some _ => mkLsys s1 (set_thread (threads sys) i (TMid o todo)) (linlog sys)
          end
      | _ =>
          let '(s1, r) := step c (shared sys) o in
          mkLsys s1 (set_thread (threads sys) i (TIdle todo)) (linlog sys ++ [(o, r_ret r)])
      end
  | Some (TMid o todo) =>
      let '(s1, r) := phase2 c (shared sys) o in
      mkLsys s1 (set_thread (threads sys) i (TIdle todo)) (linlog sys ++ [(o, r_ret r)])
  end.

Definition lin_exec (c : cfg) (sys : lsys) (sched : list nat) : lsys := fold_left (lin_step c) sched sys.

Definition lin_init (progs : list (list op)) : lsys := mkLsys cstate0 (map TIdle progs) [].

(* operations covered: single-key reads, writes and computes (loads are C08/C09's protocol) *)
Definition kv_op (o : op) : bool :=
  match o with
  | OSet _ _ _ | OSetIfAbsent _ _ _ | OGetIfPresent _ _ | OGetEntry _ _ | OGetEntryQuietly _ _
  | OCompute _ _ _ | OComputeIfAbsent _ _ _ | OComputeIfPresent _ _ _ | OInvalidate _ _ | OAuto _ _ _ _ => true
  | _ => false
  end.
