// Command otterverif is the implementation-side half of the correspondence checks in /verif.
// Each sub-command (engine) drives the real otter code (built from /repo's working tree with
// -tags verif), writes a trace for the extracted Coq model to replay, evaluates the property
// oracles that need only the implementation's own log, and prints one JSON summary line.
package main

import (
	"bufio"
	"encoding/json"
	"fmt"
	"os"
	"sort"
	"strconv"
)

// rng is a splitmix64 generator: every random choice of an engine derives from one state.
type rng struct{ s uint64 }

func (r *rng) next() uint64 {
	r.s += 0x9e3779b97f4a7c15
	z := r.s
	z = (z ^ (z >> 30)) * 0xbf58476d1ce4e5b9
	z = (z ^ (z >> 27)) * 0x94d049bb133111eb
	return z ^ (z >> 31)
}
func (r *rng) intn(n int) int      { return int(r.next() % uint64(n)) }
func (r *rng) chance(p int) bool   { return r.intn(100) < p }
func (r *rng) pick(xs []int64) int64 { return xs[r.intn(len(xs))] }

// summary is what every engine prints (one JSON line, last line of stdout).
type summary struct {
	Engine       string            `json:"engine"`
	Seed         uint64            `json:"seed"`
	Cases        int               `json:"cases"`
	Ops          int               `json:"ops"`
	Distinct     int               `json:"distinct_nontrivial"`
	Dist         map[string]int    `json:"distribution"`
	Samples      []string          `json:"samples"`
	PropFailures []propFailure     `json:"prop_failures"`
	Notes        map[string]string `json:"notes,omitempty"`
}

type propFailure struct {
	Property string `json:"property"`
	What     string `json:"what"`
	Replay   string `json:"replay"` // human/machine readable failing input
	Sig      string `json:"sig"`    // signature used to match KNOWN_FINDINGS
}

func newSummary(engine string, seed uint64) *summary {
	return &summary{Engine: engine, Seed: seed, Dist: map[string]int{}, Notes: map[string]string{}}
}

func (s *summary) fail(prop, sig, what, replay string) {
	if len(s.PropFailures) < 50 {
		s.PropFailures = append(s.PropFailures, propFailure{prop, what, replay, sig})
	}
}

func (s *summary) emit() {
	b, _ := json.Marshal(s)
	fmt.Println(string(b))
}

type traceWriter struct {
	f *os.File
	w *bufio.Writer
}

func newTrace(path string) *traceWriter {
	f, err := os.Create(path)
	if err != nil {
		panic(err)
	}
	return &traceWriter{f, bufio.NewWriterSize(f, 1<<20)}
}
func (t *traceWriter) line(format string, a ...any) { fmt.Fprintf(t.w, format+"\n", a...) }
func (t *traceWriter) close()                     { t.w.Flush(); t.f.Close() }

func envInt(name string, def int) int {
	if v := os.Getenv(name); v != "" {
		if n, err := strconv.Atoi(v); err == nil {
			return n
		}
	}
	return def
}

func sortedKeys(m map[string]int) []string {
	ks := make([]string, 0, len(m))
	for k := range m {
		ks = append(ks, k)
	}
	sort.Strings(ks)
	return ks
}

type engineFn func(seed uint64, scale int, out string, replay string) *summary

var engines = map[string]engineFn{}

func main() {
	if len(os.Args) < 2 {
		fmt.Fprintln(os.Stderr, "usage: otterverif <engine> [-seed N] [-scale N] [-out file] [-replay file]")
		os.Exit(2)
	}
	name := os.Args[1]
	seed := uint64(envInt("VERIF_SEED", 1))
	scale := 1
	out := ""
	replay := ""
	for i := 2; i+1 < len(os.Args); i += 2 {
		switch os.Args[i] {
		case "-seed":
			n, _ := strconv.ParseUint(os.Args[i+1], 10, 64)
			seed = n
		case "-scale":
			scale, _ = strconv.Atoi(os.Args[i+1])
		case "-out":
			out = os.Args[i+1]
		case "-replay":
			replay = os.Args[i+1]
		}
	}
	e, ok := engines[name]
	if !ok {
		fmt.Fprintln(os.Stderr, "unknown engine", name)
		os.Exit(2)
	}
	s := e(seed, scale, out, replay)
	s.emit()
}
