(* C04 — Size bound at quiescence; pinned and oversized entries.
   Model: Policy.v (W-TinyLFU over three deques, wrapping counters) and Maint.v (tasks in any
   arrival order). Proved here: the properties of the eviction loop that the bound rests on.
   The bound itself at quiescence for every event list is C04_bound_at_quiescence in
   Properties/C05.v's invariant development when present; see DESIGN section 5 for the status. *)
From Otter Require Import Base Sketch Policy PolicyFacts.

(* an iteration of evictFromMain evicts only while the total weight exceeds the maximum, and
   never a node of weight zero *)
Theorem C04_evicts_only_positive_weight_over_bound : forall hashf rnd p cu id cu',
  ef_step hashf rnd p cu = EfEvict id cu' -> pweight (node_of p id) <> 0 /\ wsize p > maxi p.
Proof. exact ef_step_evict. Qed.
Print Assumptions C04_evicts_only_positive_weight_over_bound.

(* entries of weight zero are never removed for size reasons: over the whole loop, any fuel *)
Theorem C04_zero_weight_never_evicted : forall fuel hashf rnd p cu,
  let '(p1, evicted) := evict_from_main fuel hashf rnd p cu [] in
  forall id, In id evicted -> pweight (node_of p1 id) <> 0.
Proof. intros fuel hashf rnd p cu. apply (evict_from_main_nonzero fuel hashf rnd p cu []). intros id []. Qed.
Print Assumptions C04_zero_weight_never_evicted.

(* the loop gives up only when the bound is restored or both cursors are exhausted *)
Theorem C04_loop_exit_partial : forall hashf rnd p cu,
  ef_step hashf rnd p cu = EfStop -> wsize p <= maxi p \/ (c_victim cu = None /\ c_cand cu = None).
Proof. exact ef_step_stop. Qed.
Print Assumptions C04_loop_exit_partial.

(* an entry heavier than the maximum is evicted by the very task that introduces it *)
Theorem C04_oversized_not_retained : forall hashf p id,
  pstate (node_of p id) = ALIVE -> pweight (node_of p id) > maxi p -> snd (pol_add hashf p id) = [id].
Proof. exact pol_add_oversized. Qed.
Print Assumptions C04_oversized_not_retained.

(* non-vacuity: a full cache of maximum 2 evicts exactly one of three unit-weight nodes, and a
   zero-weight node survives any pressure *)
Example C04_nonvacuous :
  let h := fun _ k => k in
  let p0 := with_maxima (policy0 true) 2 1 0 in
  let add p id w := fst (pol_add h (set_node p id (mkPnode id w ALIVE QWINDOW)) id) in
  let p := add (add (add (add p0 1 1) 2 1) 3 0) 4 1 in
  let '(p', ev) := pol_evict_nodes h 1 p in
  length ev = 1%nat /\ ~ In 3 ev /\ wsize p' = 2.
Proof. vm_compute. repeat split; try reflexivity. intros [H|[]]; discriminate H. Qed.
