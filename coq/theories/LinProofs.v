(* LinProofs.v — the order of decisive actions is a linearization (C02, action level). *)
From Otter Require Import Base Seq Spec SeqRefine Lin.
From Coq Require Import ZifyBool.
Local Open Scope Z_scope.

Section L.
Variable c : cfg.
Hypothesis NoExp : with_exp c = false.

Lemma not_expired n now : has_expired c n now = false.
Proof. unfold has_expired. rewrite NoExp. reflexivity. Qed.

Lemma calc_exp_read_id k n now : calc_exp_read c k n now = n.
Proof. unfold calc_exp_read. rewrite NoExp. reflexivity. Qed.

Definition nodup (m : kmap) : Prop := NoDup (map fst m).

Lemma mutate_same k n m : nodup m -> lookup k m = Some n -> mutate k (fun _ => n) m = m.
Proof.
  unfold nodup. induction m as [|[k' x] m IH]; intros Hnd L; cbn [mutate map lookup fst snd] in *; [reflexivity|].
  inversion Hnd as [|? ? Hn Hd]; subst. destruct (k' =? k) eqn:E.
  - injection L as ->. f_equal. apply Z.eqb_eq in E. subst k'.
    assert (forall m', ~ In k (map fst m') -> map (fun p : Z * node => if fst p =? k then (fst p, n) else p) m' = m').
    { induction m' as [|[k2 n2] m' IH']; intros H; [reflexivity|]. cbn [map fst]. 
      destruct (k2 =? k) eqn:E2; [exfalso; apply H; left; cbn; lia|]. f_equal. apply IH'. intros Hi. apply H. right. assumption. }
    apply H. assumption.
  - f_equal. apply IH; assumption.
Qed.

(* the table part of getNode: a miss changes nothing, a hit changes nothing either (no read-extension) *)
Lemma get_node_cmap s k now : nodup (cmap s) -> cmap (fst (get_node c s k now)) = cmap s.
Proof.
  intros Hnd. unfold get_node. destruct (lookup k (cmap s)) as [n|] eqn:L; [|reflexivity].
  rewrite not_expired. rewrite calc_exp_read_id. cbn [fst cmap upd_st upd_map]. apply mutate_same; assumption.
Qed.

Lemma get_node_result s k now :
  snd (get_node c s k now) = lookup k (cmap s).
Proof.
  unfold get_node. destruct (lookup k (cmap s)) as [n|] eqn:L; [|reflexivity].
  rewrite not_expired. rewrite calc_exp_read_id. reflexivity.
Qed.

(* table and return value of the primitives depend on the table only, not on the statistics *)
Definition same_tbl (s s' : cstate) : Prop := cmap s = cmap s'.

Lemma do_compute_congr s s' k f now rs rs' : same_tbl s s' ->
  same_tbl (fst (do_compute c s k f now rs)) (fst (do_compute c s' k f now rs')) /\
  r_ret (snd (do_compute c s k f now rs)) = r_ret (snd (do_compute c s' k f now rs')).
Proof.
  unfold same_tbl. intros E. unfold do_compute. rewrite <- E.
  destruct (f _ _) as [|v []]; cbn [fst snd r_ret]; try (split; [assumption|reflexivity]).
  - destruct (lookup k (cmap s)) as [o|]; [destruct (has_expired c o now)|]; cbn [fst snd r_ret];
      (split; [destruct rs; destruct rs'; cbn [cmap upd_st upd_map]; congruence|reflexivity]).
  - destruct (atomic_set c k v (lookup k (cmap s)) NoCall now) as [n evs]. cbn [fst snd r_ret].
    split; [destruct rs; destruct rs'; cbn [cmap upd_st upd_map]; congruence|reflexivity].
  - split; [destruct rs; destruct rs'; cbn [cmap upd_st upd_map]; congruence|reflexivity].
Qed.

Lemma do_set_congr s s' k v oia now : same_tbl s s' ->
  same_tbl (fst (do_set c s k v oia now)) (fst (do_set c s' k v oia now)) /\
  r_ret (snd (do_set c s k v oia now)) = r_ret (snd (do_set c s' k v oia now)).
Proof.
  unfold same_tbl. intros E. unfold do_set. rewrite <- E.
  destruct (oia && _).
  - destruct (lookup k (cmap s)); cbn [fst snd r_ret cmap upd_map res0]; [split; [congruence|reflexivity]|split; [assumption|reflexivity]].
  - destruct (atomic_set c k v (lookup k (cmap s)) NoCall now) as [n evs]. cbn [fst snd r_ret cmap upd_map].
    split; [congruence|reflexivity].
Qed.

Lemma step_congr s s' o : kv_op o = true -> nodup (cmap s) -> same_tbl s s' ->
  same_tbl (fst (step c s o)) (fst (step c s' o)) /\ r_ret (snd (step c s o)) = r_ret (snd (step c s' o)).
Proof.
  intros Hk Hnd E. assert (Hnd' : nodup (cmap s')) by (unfold same_tbl in E; rewrite <- E; assumption).
  destruct o; try discriminate; cbn [step].
  - apply do_set_congr; assumption.
  - apply do_set_congr; assumption.
  - pose proof (get_node_cmap s k now Hnd) as C1. pose proof (get_node_cmap s' k now Hnd') as C2.
    pose proof (get_node_result s k now) as R1. pose proof (get_node_result s' k now) as R2.
    destruct (get_node c s k now) as [s1 g1]. destruct (get_node c s' k now) as [s2 g2]. cbn [fst snd] in *.
    unfold same_tbl in *. rewrite <- E in R2. subst g1 g2. split; [congruence|reflexivity].
  - pose proof (get_node_cmap s k now Hnd) as C1. pose proof (get_node_cmap s' k now Hnd') as C2.
    pose proof (get_node_result s k now) as R1. pose proof (get_node_result s' k now) as R2.
    destruct (get_node c s k now) as [s1 g1]. destruct (get_node c s' k now) as [s2 g2]. cbn [fst snd] in *.
    unfold same_tbl in *. rewrite <- E in R2. subst g1 g2. split; [congruence|reflexivity].
  - unfold get_node_quietly, same_tbl in *. rewrite <- E. split; [assumption|reflexivity].
  - apply do_compute_congr. assumption.
  - pose proof (get_node_cmap s k now Hnd) as C1. pose proof (get_node_cmap s' k now Hnd') as C2.
    pose proof (get_node_result s k now) as R1. pose proof (get_node_result s' k now) as R2.
    destruct (get_node c s k now) as [s1 g1]. destruct (get_node c s' k now) as [s2 g2]. cbn [fst snd] in *.
    unfold same_tbl in E. rewrite <- E in R2. subst g1 g2.
    destruct (lookup k (cmap s)); [cbn [fst snd r_ret res0]; split; [unfold same_tbl; congruence|reflexivity]|].
    apply do_compute_congr. unfold same_tbl. congruence.
  - pose proof (get_node_cmap s k now Hnd) as C1. pose proof (get_node_cmap s' k now Hnd') as C2.
    pose proof (get_node_result s k now) as R1. pose proof (get_node_result s' k now) as R2.
    destruct (get_node c s k now) as [s1 g1]. destruct (get_node c s' k now) as [s2 g2]. cbn [fst snd] in *.
    unfold same_tbl in E. rewrite <- E in R2. subst g1 g2.
    destruct (lookup k (cmap s)); [|cbn [fst snd r_ret res0]; split; [unfold same_tbl; congruence|reflexivity]].
    apply do_compute_congr. unfold same_tbl. congruence.
  - unfold do_invalidate, same_tbl in *. rewrite <- E. cbn [fst snd r_ret cmap upd_map]. split; [congruence|reflexivity].
  - unfold do_auto, same_tbl in *. rewrite <- E. destruct (lookup k (cmap s)) as [n|]; [|split; [assumption|reflexivity]].
    destruct ((nval n =? v) && _); cbn [fst snd r_ret cmap upd_map upd_st res0]; (split; [congruence|reflexivity]).
Qed.

(* NoDup of keys is preserved *)
Lemma nodup_put k n m : nodup m -> nodup (put k n m).
Proof.
  unfold nodup, put. intros H. cbn [map fst]. constructor; [|apply NoDup_remove; assumption].
  intros Hin. apply keys_remove in Hin. tauto.
Qed.

Lemma do_compute_nodup s k f now rs : nodup (cmap s) -> nodup (cmap (fst (do_compute c s k f now rs))).
Proof.
  intros H. unfold do_compute. destruct (f _ _) as [|v []]; cbn [fst]; try assumption.
  - destruct (lookup k (cmap s)) as [o|]; [destruct (has_expired c o now)|]; cbn [fst]; destruct rs; cbn [cmap upd_st upd_map];
      try assumption; apply NoDup_remove; assumption.
  - destruct (atomic_set c k v (lookup k (cmap s)) NoCall now) as [n evs]. cbn [fst]. destruct rs; cbn [cmap upd_st upd_map]; apply nodup_put; assumption.
  - destruct rs; cbn [cmap upd_st upd_map]; apply NoDup_remove; assumption.
Qed.

Lemma step_nodup s o : kv_op o = true -> nodup (cmap s) -> nodup (cmap (fst (step c s o))).
Proof.
  intros Hk H. destruct o; try discriminate; cbn [step].
  - unfold do_set. cbn [andb].
    destruct (atomic_set c k v (lookup k (cmap s)) NoCall now) as [n evs]. cbn [fst cmap upd_map]. apply nodup_put. assumption.
  - unfold do_set. destruct (true && _).
    + destruct (lookup k (cmap s)); cbn [fst cmap upd_map]; [|assumption]. unfold nodup. rewrite map_fst_mutate. assumption.
    + destruct (atomic_set c k v (lookup k (cmap s)) NoCall now) as [n evs]. cbn [fst cmap upd_map]. apply nodup_put. assumption.
  - pose proof (get_node_cmap s k now H) as C1. destruct (get_node c s k now) as [s1 g1]. cbn [fst] in *. rewrite C1. assumption.
  - pose proof (get_node_cmap s k now H) as C1. destruct (get_node c s k now) as [s1 g1]. cbn [fst] in *. rewrite C1. assumption.
  - assumption.
  - apply do_compute_nodup. assumption.
  - pose proof (get_node_cmap s k now H) as C1. destruct (get_node c s k now) as [s1 g1]. cbn [fst] in *.
    destruct g1; [cbn [fst]; rewrite C1; assumption|]. apply do_compute_nodup. rewrite C1. assumption.
  - pose proof (get_node_cmap s k now H) as C1. destruct (get_node c s k now) as [s1 g1]. cbn [fst] in *.
    destruct g1; [|cbn [fst]; rewrite C1; assumption]. apply do_compute_nodup. rewrite C1. assumption.
  - unfold do_invalidate. cbn [fst cmap upd_map]. apply NoDup_remove. assumption.
  - unfold do_auto. destruct (lookup k (cmap s)) as [n|]; [|assumption].
    destruct ((nval n =? v) && _); cbn [fst cmap upd_map upd_st]; [apply NoDup_remove|]; assumption.
Qed.

(* the second phase, executed alone at any later state, is the whole operation executed atomically there *)
Lemma phase2_is_atomic s o :
  (exists k f now, o = OComputeIfAbsent k f now) \/ (exists k f now, o = OComputeIfPresent k f now) ->
  nodup (cmap s) ->
  same_tbl (fst (phase2 c s o)) (fst (step c s o)) /\ r_ret (snd (phase2 c s o)) = r_ret (snd (step c s o)).
Proof.
  intros Ho Hnd. destruct Ho as [(k & f & now & ->)|(k & f & now & ->)]; cbn [phase2 step].
  - pose proof (get_node_cmap s k now Hnd) as C1. pose proof (get_node_result s k now) as R1.
    destruct (get_node c s k now) as [s1 g1]. cbn [fst snd] in *. subst g1.
    destruct (lookup k (cmap s)) as [n|] eqn:L.
    + (* present at the decisive instant: the wrapper cancels and the existing value is returned *)
      unfold do_compute. rewrite L. rewrite not_expired. cbn [negb fst snd r_ret res0]. unfold same_tbl. split; [congruence|reflexivity].
    + apply do_compute_congr. unfold same_tbl. congruence.
  - pose proof (get_node_cmap s k now Hnd) as C1. pose proof (get_node_result s k now) as R1.
    destruct (get_node c s k now) as [s1 g1]. cbn [fst snd] in *. subst g1.
    destruct (lookup k (cmap s)) as [n|] eqn:L.
    + apply do_compute_congr. unfold same_tbl. congruence.
    + unfold do_compute. rewrite L. cbn [fst snd r_ret res0]. unfold same_tbl. split; [congruence|reflexivity].
Qed.


(* ---- the concurrent system *)

Lemma run_app s l o :
  run c s (l ++ [o]) =
  (fst (step c (fst (run c s l)) o), snd (run c s l) ++ [snd (step c (fst (run c s l)) o)]).
Proof.
  revert s. induction l as [|x l IH]; intros s; cbn [app run].
  - cbn [fst snd app]. destruct (step c s o) as [s1 r]. reflexivity.
  - destruct (step c s x) as [s1 r1]. rewrite IH. destruct (run c s1 l) as [s2 rs]. cbn [fst snd].
    destruct (step c s2 o) as [s3 r3]. reflexivity.
Qed.

Definition two_phase (o : op) : Prop :=
  (exists k f now, o = OComputeIfAbsent k f now) \/ (exists k f now, o = OComputeIfPresent k f now).

Definition thread_ok (t : tstate) : Prop :=
  match t with
  | TIdle todo => forallb kv_op todo = true
  | TMid o todo => two_phase o /\ forallb kv_op todo = true
  end.

Record sys_inv (sys : lsys) : Prop := mkSysInv {
  si_nodup : nodup (cmap (shared sys));
  si_threads : forall i t, nth_error (threads sys) i = Some t -> thread_ok t;
  si_tbl : same_tbl (fst (run c cstate0 (map fst (linlog sys)))) (shared sys);
  si_rets : map r_ret (snd (run c cstate0 (map fst (linlog sys)))) = map snd (linlog sys);
  si_seq_nodup : nodup (cmap (fst (run c cstate0 (map fst (linlog sys)))))
}.

Lemma nth_error_set_thread ts i t j :
  nth_error (set_thread ts i t) j = if Nat.eqb i j then (if Nat.ltb i (length ts) then Some t else nth_error ts j) else nth_error ts j.
Proof.
  unfold set_thread. revert i j. induction ts as [|h tl IH]; intros [|i] [|j]; cbn; try reflexivity.
  - destruct (Nat.eqb i j); [destruct (Nat.ltb i 0)|]; reflexivity.
  - rewrite IH. destruct (Nat.eqb i j); [|reflexivity].
    replace (S i <? S (length tl))%nat with (i <? length tl)%nat by (apply Bool.eq_true_iff_eq; rewrite !Nat.ltb_lt; lia). reflexivity.
Qed.

Lemma threads_ok_set ts i t :
  (forall j x, nth_error ts j = Some x -> thread_ok x) -> thread_ok t ->
  forall j x, nth_error (set_thread ts i t) j = Some x -> thread_ok x.
Proof.
  intros H Ht j x Hx. rewrite nth_error_set_thread in Hx.
  destruct (Nat.eqb i j); [destruct (Nat.ltb i (length ts)); [injection Hx as <-; assumption|apply (H j x Hx)]|apply (H j x Hx)].
Qed.

(* logging one more completed operation whose effect on the shared table and whose return value
   coincide with the sequential step keeps the invariant *)
Lemma log_step sys o s1 r ts' :
  sys_inv sys -> kv_op o = true ->
  same_tbl s1 (fst (step c (shared sys) o)) -> r = r_ret (snd (step c (shared sys) o)) ->
  (forall j x, nth_error ts' j = Some x -> thread_ok x) ->
  sys_inv (mkLsys s1 ts' (linlog sys ++ [(o, r)])).
Proof.
  intros [Nd Th Tb Rt Sn] Hk Hs Hr Hts.
  pose proof (step_congr (fst (run c cstate0 (map fst (linlog sys)))) (shared sys) o Hk Sn Tb) as [C1 C2].
  constructor; cbn [shared threads linlog].
  - unfold same_tbl in Hs. unfold nodup. rewrite Hs. apply step_nodup; assumption.
  - assumption.
  - rewrite map_app. cbn [map fst]. rewrite run_app. cbn [fst]. unfold same_tbl in *. congruence.
  - rewrite map_app. cbn [map fst snd]. rewrite run_app. cbn [snd]. rewrite map_app. cbn [map]. rewrite Rt.
    rewrite (map_app snd). cbn [map snd]. f_equal. f_equal. congruence.
  - rewrite map_app. cbn [map fst]. rewrite run_app. cbn [fst]. apply step_nodup; assumption.
Qed.

Theorem lin_step_inv sys i : sys_inv sys -> sys_inv (lin_step c sys i).
Proof.
  intros I. pose proof I as I0. destruct I as [Nd Th Tb Rt Sn]. unfold lin_step.
  destruct (nth_error (threads sys) i) as [[todo|o todo]|] eqn:Ei; [|
    |assumption].
  - (* idle *)
    destruct todo as [|o todo]; [assumption|].
    pose proof (Th i _ Ei) as Tok. cbn [thread_ok forallb] in Tok. apply andb_true_iff in Tok. destruct Tok as [Hk Htodo].
    assert (Hidle : forall j x, nth_error (set_thread (threads sys) i (TIdle todo)) j = Some x -> thread_ok x)
      by (apply threads_ok_set; assumption).
    destruct o; try discriminate;
      try (destruct (step c (shared sys) _) as [s1 r] eqn:Es;
           eapply log_step; try eassumption; try reflexivity; rewrite Es; reflexivity).
    + (* ComputeIfAbsent: read phase *)
      pose proof (get_node_cmap (shared sys) k now Nd) as C1. pose proof (get_node_result (shared sys) k now) as R1.
      destruct (get_node c (shared sys) k now) as [s1 g1] eqn:Eg. cbn [fst snd] in *. subst g1.
      destruct (lookup k (cmap (shared sys))) as [n|] eqn:L.
      * eapply log_step; try eassumption; try reflexivity; cbn [step]; rewrite Eg; rewrite ?L; cbn [fst snd r_ret res0]; reflexivity.
      * constructor; cbn [shared threads linlog]; try assumption.
        -- unfold nodup. rewrite C1. assumption.
        -- apply threads_ok_set; [assumption|]. split; [left; eauto|assumption].
        -- unfold same_tbl in *. congruence.
    + (* ComputeIfPresent: read phase *)
      pose proof (get_node_cmap (shared sys) k now Nd) as C1. pose proof (get_node_result (shared sys) k now) as R1.
      destruct (get_node c (shared sys) k now) as [s1 g1] eqn:Eg. cbn [fst snd] in *. subst g1.
      destruct (lookup k (cmap (shared sys))) as [n|] eqn:L.
      * constructor; cbn [shared threads linlog]; try assumption.
        -- unfold nodup. rewrite C1. assumption.
        -- apply threads_ok_set; [assumption|]. split; [right; eauto|assumption].
        -- unfold same_tbl in *. congruence.
      * eapply log_step; try eassumption; try reflexivity; cbn [step]; rewrite Eg; rewrite ?L; cbn [fst snd r_ret res0]; reflexivity.
  - (* second phase *)
    pose proof (Th i _ Ei) as [Htp Htodo].
    pose proof (phase2_is_atomic (shared sys) o Htp Nd) as [P1 P2].
    destruct (phase2 c (shared sys) o) as [s1 r] eqn:Ep. cbn [fst snd] in *.
    assert (Hk : kv_op o = true) by (destruct Htp as [(k & f & now & ->)|(k & f & now & ->)]; reflexivity).
    eapply log_step; try eassumption.
    apply threads_ok_set; assumption.
Qed.

Theorem lin_exec_inv sched : forall sys, sys_inv sys -> sys_inv (lin_exec c sys sched).
Proof.
  induction sched as [|i rest IH]; intros sys I; cbn [lin_exec fold_left]; [assumption|].
  apply IH. apply lin_step_inv. assumption.
Qed.

Lemma lin_init_inv progs : Forall (fun p => forallb kv_op p = true) progs -> sys_inv (lin_init progs).
Proof.
  intros H. constructor; cbn [lin_init shared threads linlog map run fst snd cstate0 cmap].
  - constructor.
  - intros i t Hi. apply nth_error_In in Hi. apply in_map_iff in Hi. destruct Hi as (p & <- & Hp).
    rewrite Forall_forall in H. apply (H p Hp).
  - reflexivity.
  - reflexivity.
  - constructor.
Qed.

End L.
