(* StripedProofs.v — invariants of the striped-table model (Striped.v) under every schedule: the spin
   lock admits one thread; the current table is always the latest version and contains every cell of
   every older version; every ring ever created sits in exactly one cell of the current table. *)
From Coq Require Import List Arith Bool Lia.
Import ListNotations.
From Otter Require Import Base Striped.
Local Open Scope nat_scope.

Definition b2n (b : bool) : nat := if b then 1 else 0.
Definition scnt (f : sthread -> bool) (l : list sthread) : nat := length (filter f l).

Lemma scnt_cons f t l : scnt f (t :: l) = b2n (f t) + scnt f l.
Proof. unfold scnt. cbn [filter]. destruct (f t); reflexivity. Qed.

Lemma scnt_upd f x : forall l i old,
  nth_error l i = Some old -> scnt f (upd i x l) + b2n (f old) = scnt f l + b2n (f x).
Proof.
  induction l as [|h t IH]; intros i old H; [destruct i; discriminate H|].
  destruct i as [|i]; cbn [nth_error upd] in *.
  - injection H as ->. rewrite !scnt_cons. lia.
  - rewrite !scnt_cons. specialize (IH i old H). lia.
Qed.

Definition crit (t : sthread) : bool :=
  match spc_ t with E4 | E5 | E7c | E8 | E9c | E9r => true | _ => false end.

(* the part of the invariant about the tables, as a predicate of (tables, cur, number of rings) *)
Definition curtbl (tables : list (list (option nat))) (cur : option nat) : list (option nat) :=
  match cur with Some g => nth g tables [] | None => [] end.

Definition TInv (tables : list (list (option nat))) (cur : option nat) (nr : nat) : Prop :=
  (match cur with None => tables = [] | Some g => S g = length tables end) /\
  (forall g i r, g < length tables -> nth i (nth g tables []) None = Some r ->
                 nth i (curtbl tables cur) None = Some r) /\
  (forall i r, nth i (curtbl tables cur) None = Some r -> r < nr) /\
  (forall r, r < nr -> exists i, nth i (curtbl tables cur) None = Some r) /\
  (forall i j r, nth i (curtbl tables cur) None = Some r -> nth j (curtbl tables cur) None = Some r -> i = j).

Definition SInv (s : sstate) : Prop :=
  scnt crit (sths s) = b2n (busy s) /\ TInv (tables s) (cur s) (length (rings s)).

Lemma nth_upd_eq {A} (l : list A) i x d : i < length l -> nth i (upd i x l) d = x.
Proof. apply nth_upd_same. Qed.

(* creating a ring in an empty cell of the current table *)
Lemma TInv_create tables g nr j :
  TInv tables (Some g) nr -> j < length (nth g tables []) -> nth j (nth g tables []) None = None ->
  TInv (upd g (upd j (Some nr) (nth g tables [])) tables) (Some g) (S nr).
Proof.
  intros (Hv & Hm & Hlt & Hex & Hinj) Hj Hnone. unfold TInv. cbn [curtbl] in *.
  assert (Hg : g < length tables) by lia.
  assert (Hcur : nth g (upd g (upd j (Some nr) (nth g tables [])) tables) [] = upd j (Some nr) (nth g tables [])).
  { apply nth_upd_same. assumption. }
  split; [rewrite upd_length; assumption|]. rewrite Hcur.
  assert (Hcell : forall i, nth i (upd j (Some nr) (nth g tables [])) None =
                            if Nat.eqb i j then Some nr else nth i (nth g tables []) None).
  { intros i. destruct (Nat.eqb_spec i j) as [->|Hne]; [apply nth_upd_same; assumption|apply nth_upd_other; lia]. }
  split; [|split; [|split]].
  - intros g' i r Hg' Hn. rewrite upd_length in Hg'. rewrite Hcell.
    destruct (Nat.eq_dec g' g) as [->|Hneq].
    + rewrite Hcur, Hcell in Hn. exact Hn.
    + rewrite nth_upd_other in Hn by lia. specialize (Hm g' i r Hg' Hn).
      destruct (Nat.eqb_spec i j) as [->|_]; [rewrite Hnone in Hm; discriminate Hm|exact Hm].
  - intros i r Hn. rewrite Hcell in Hn. destruct (Nat.eqb i j); [injection Hn as <-; lia|].
    specialize (Hlt i r Hn). lia.
  - intros r Hr. destruct (Nat.eq_dec r nr) as [->|Hne].
    + exists j. rewrite Hcell, Nat.eqb_refl. reflexivity.
    + destruct (Hex r ltac:(lia)) as (i & Hi). exists i. rewrite Hcell.
      destruct (Nat.eqb_spec i j) as [->|_]; [rewrite Hnone in Hi; discriminate Hi|exact Hi].
  - intros i i' r Hi Hi'. rewrite Hcell in Hi, Hi'.
    destruct (Nat.eqb_spec i j) as [->|Hn1], (Nat.eqb_spec i' j) as [->|Hn2].
    + reflexivity.
    + injection Hi as <-. specialize (Hlt i' nr Hi'). lia.
    + injection Hi' as <-. specialize (Hlt i nr Hi). lia.
    + eapply Hinj; eassumption.
Qed.

(* expanding: the new version is the current one followed by empty cells *)
Lemma TInv_expand tables g nr :
  TInv tables (Some g) nr ->
  TInv (tables ++ [nth g tables [] ++ repeat None (length (nth g tables []))]) (Some (length tables)) nr.
Proof.
  intros (Hv & Hm & Hlt & Hex & Hinj). unfold TInv. cbn [curtbl] in *.
  set (tb := nth g tables []) in *.
  assert (Hcur : nth (length tables) (tables ++ [tb ++ repeat None (length tb)]) [] = tb ++ repeat None (length tb)).
  { rewrite app_nth2 by lia. replace (length tables - length tables) with 0 by lia. reflexivity. }
  assert (Hcell : forall i r, nth i (tb ++ repeat None (length tb)) None = Some r <-> nth i tb None = Some r).
  { intros i r. destruct (Nat.lt_ge_cases i (length tb)) as [Hlt'|Hge].
    - rewrite app_nth1 by assumption. reflexivity.
    - rewrite app_nth2 by assumption. rewrite (nth_overflow tb) by assumption.
      assert (nth (i - length tb) (repeat (@None nat) (length tb)) None = None) as ->.
      { destruct (Nat.lt_ge_cases (i - length tb) (length tb)); [apply nth_repeat|apply nth_overflow; rewrite repeat_length; assumption]. }
      split; discriminate. }
  split; [rewrite app_length; cbn [length]; lia|]. rewrite Hcur.
  split; [|split; [|split]].
  - intros g' i r Hg' Hn. rewrite app_length in Hg'. cbn [length] in Hg'. apply Hcell.
    destruct (Nat.lt_ge_cases g' (length tables)) as [Hlt'|Hge].
    + rewrite app_nth1 in Hn by assumption. exact (Hm g' i r Hlt' Hn).
    + assert (g' = length tables) by lia. subst g'. rewrite Hcur in Hn. apply Hcell in Hn. exact Hn.
  - intros i r Hn. apply Hcell in Hn. exact (Hlt i r Hn).
  - intros r Hr. destruct (Hex r Hr) as (i & Hi). exists i. apply Hcell. exact Hi.
  - intros i j r Hi Hj. apply Hcell in Hi. apply Hcell in Hj. eapply Hinj; eassumption.
Qed.

(* the first table: one cell holding the first ring *)
Lemma TInv_init nr : TInv [] None nr -> nr = 0 -> TInv ([] ++ [[Some 0]]) (Some 0) 1.
Proof.
  intros _ _. unfold TInv. cbn [app curtbl nth]. split; [reflexivity|]. split; [|split; [|split]].
  - intros g i r Hg Hn. cbn [length] in Hg. assert (g = 0) by lia. subst g. exact Hn.
  - intros i r Hn. destruct i as [|[|i]]; cbn [nth] in Hn; [injection Hn as <-; lia|discriminate|discriminate].
  - intros r Hr. exists 0. assert (r = 0) by lia. subst r. reflexivity.
  - intros i j r Hi Hj. destruct i as [|[|i]], j as [|[|j]]; cbn [nth] in *; try discriminate; reflexivity.
Qed.

Lemma TInv_none_rings tables nr : TInv tables None nr -> nr = 0.
Proof.
  intros (_ & _ & _ & Hex & _). destruct nr as [|nr]; [reflexivity|].
  destruct (Hex 0 ltac:(lia)) as (i & Hi). cbn [curtbl] in Hi. destruct i; discriminate Hi.
Qed.

(* ------------------------------------------------------------------ *)
(* every step of every thread preserves the invariant *)

Lemma b2n_le1 b : b2n b <= 1.
Proof. destruct b; cbn; lia. Qed.

Ltac crit_of t Epc :=
  let Hc := fresh "Hc" in
  pose proof (eq_refl (crit t)) as Hc; unfold crit in Hc at 2; rewrite Epc in Hc.

Ltac fin_mutex Hth Hc HM :=
  match goal with |- scnt crit (upd ?i ?T ?l) = _ =>
    let H := fresh in
    pose proof (scnt_upd crit T l i _ Hth) as H;
    rewrite Hc in H; cbn [crit spc_ with_pc retry b2n] in H;
    repeat match type of H with context [if ?b then _ else _] => destruct b end;
    cbn [crit spc_ with_pc retry b2n] in H;
    match type of HM with _ = b2n ?b => pose proof (b2n_le1 b) end; rewrite HM in H;
    try (match goal with E : busy _ = _ |- _ => rewrite ?E in * end); cbn [b2n] in *; lia
  end.

Ltac fin Hth Hc HM HT :=
  unfold set_th; cbn [sths busy tables cur rings maxlen];
  split; [fin_mutex Hth Hc HM|try exact HT; try (rewrite upd_length; exact HT);
          try (match goal with E : cur _ = _ |- _ => rewrite E; exact HT end)].

Lemma cell_spec tb i : cell tb i = None \/ exists r, cell tb i = Some r /\ i mod length tb < length tb /\ nth (i mod length tb) tb None = Some r.
Proof.
  unfold cell. destruct (length tb) eqn:E; [left; reflexivity|].
  destruct (nth (i mod S n) tb None) as [r|] eqn:En; [|left; reflexivity].
  right. exists r. split; [reflexivity|]. split; [apply Nat.mod_upper_bound; lia|reflexivity].
Qed.

Lemma SInv_step s i o : SInv s -> SInv (sstep s i o).
Proof.
  intros [HM HT]. unfold SInv, sstep.
  destruct (nth_error (sths s) i) as [t|] eqn:Hth; [|split; assumption].
  destruct (spc_ t) eqn:Epc; crit_of t Epc.
  - (* A0 *) destruct (cur s) eqn:Ec; fin Hth Hc HM HT.
  - (* A1 *) destruct (cell (tbl_of s (snap t)) (idx t)); fin Hth Hc HM HT.
  - (* A2 *) destruct o as [|[|o]]; fin Hth Hc HM HT.
  - (* E1 *) destruct (Nat.leb 3 (attempt t)); [fin Hth Hc HM HT|]. destruct (cur s) eqn:Ec; fin Hth Hc HM HT.
  - (* E2 *) destruct (cell (tbl_of s (snap t)) (idx t)); [destruct (wasunc t)|]; fin Hth Hc HM HT.
  - (* E3 *) destruct (busy s) eqn:Eb; fin Hth Hc HM HT.
  - (* E4 *)
    destruct (cur s) as [g|] eqn:Ec; [|fin Hth Hc HM HT].
    destruct (length (nth g (tables s) [])) eqn:El; [fin Hth Hc HM HT|].
    destruct (cell_spec (nth g (tables s) []) (idx t)) as [En|(r & En & _)]; rewrite En; [|fin Hth Hc HM HT].
    cbn [sths busy tables cur rings maxlen]. split; [fin_mutex Hth Hc HM|].
    rewrite app_length. cbn [length]. replace (length (rings s) + 1) with (S (length (rings s))) by lia.
    rewrite <- El. apply TInv_create; [exact HT|apply Nat.mod_upper_bound; lia|].
    unfold cell in En. rewrite El in En. rewrite <- El in En. exact En.
  - (* E5 *) cbn [sths busy tables cur rings maxlen]. split; [|exact HT]. destruct (flag t); fin_mutex Hth Hc HM.
  - (* E6 *) destruct o as [|[|o]]; fin Hth Hc HM HT.
  - (* E6b *)
    destruct (Nat.leb (maxlen s) (length (tbl_of s (snap t))) || negb (opt_eqb (cur s) (snap t))); [fin Hth Hc HM HT|].
    destruct (negb (collide t)); fin Hth Hc HM HT.
  - (* E7 *) destruct (busy s) eqn:Eb; fin Hth Hc HM HT.
  - (* E7c *)
    destruct (cur s) as [g|] eqn:Ec; [|fin Hth Hc HM HT].
    destruct (snap t) as [g'|] eqn:Es; [|fin Hth Hc HM HT].
    destruct (Nat.eqb g g') eqn:Eo; [|fin Hth Hc HM HT].
    cbn [sths busy tables cur rings maxlen]. split; [fin_mutex Hth Hc HM|].
    apply TInv_expand. exact HT.
  - (* E8 *) cbn [sths busy tables cur rings maxlen]. split; [fin_mutex Hth Hc HM|exact HT].
  - (* E9 *) destruct o as [|o]; [destruct (busy s) eqn:Eb|]; fin Hth Hc HM HT.
  - (* E9c *)
    destruct (cur s) as [g|] eqn:Ec; [fin Hth Hc HM HT|].
    cbn [sths busy tables cur rings maxlen]. split; [fin_mutex Hth Hc HM|].
    pose proof (TInv_none_rings _ _ HT) as Hz. destruct HT as (Hv & HT'). rewrite app_length. cbn [length]. rewrite Hv, Hz.
    cbn [app Nat.add]. apply (TInv_init 0); [|reflexivity].
    split; [reflexivity|]. cbn [curtbl]. split; [intros ? ? ? Hg; cbn in Hg; lia|]. split; [intros i0 r0 Hn; destruct i0; discriminate Hn|].
    split; [intros r Hr; lia|intros i0 j r Hi; destruct i0; discriminate Hi].
  - (* E9r *) cbn [sths busy tables cur rings maxlen]. split; [|exact HT]. destruct (flag t); fin_mutex Hth Hc HM.
  - (* SDone *) split; assumption.
Qed.

(* ------------------------------------------------------------------ *)
(* all schedules *)

Lemma SInv_init maxl elems idxs : SInv (sinit maxl elems idxs).
Proof.
  unfold SInv, sinit. cbn [sths busy tables cur rings length b2n]. split.
  - induction (combine elems idxs) as [|[e i] l IH]; [reflexivity|]. cbn [map]. rewrite scnt_cons. cbn [crit spc_ b2n]. exact IH.
  - split; [reflexivity|]. cbn [curtbl]. split; [intros ? ? ? Hg; cbn in Hg; lia|].
    split; [intros i r Hn; destruct i; discriminate Hn|]. split; [intros r Hr; lia|intros i j r Hi; destruct i; discriminate Hi].
Qed.

Theorem SInv_run sched : forall s, SInv s -> SInv (srun s sched).
Proof.
  induction sched as [|[i o] rest IH]; intros s H; [exact H|]. cbn [srun fold_left fst snd]. apply IH. apply SInv_step. exact H.
Qed.

Lemma visible_spec s r : In r (visible_rings s) <-> exists i, nth i (tbl_of s (cur s)) None = Some r.
Proof.
  unfold visible_rings. generalize (tbl_of s (cur s)). intros tb. induction tb as [|c tb IH]; cbn [flat_map].
  - split; [intros []|intros (i & Hi); destruct i; discriminate Hi].
  - rewrite in_app_iff, IH. split.
    + intros [H|(i & Hi)]; [destruct c as [x|]; [destruct H as [->|[]]; exists 0; reflexivity|destruct H]|exists (S i); exact Hi].
    + intros (i & Hi). destruct i as [|i]; [left; cbn [nth] in Hi; subst c; left; reflexivity|right; exists i; exact Hi].
Qed.

Lemma tbl_of_curtbl s : tbl_of s (cur s) = curtbl (tables s) (cur s).
Proof. reflexivity. Qed.

(* no ring is ever lost: whatever has been created is reachable from the current table *)
Theorem no_lost_ring s : SInv s -> forall r, r < length (rings s) -> In r (visible_rings s).
Proof.
  intros [_ (_ & _ & _ & Hex & _)] r Hr. apply visible_spec. rewrite tbl_of_curtbl. exact (Hex r Hr).
Qed.

(* and no ring sits in two cells: a drain visits every ring once *)
Theorem visible_nodup s : SInv s -> NoDup (visible_rings s).
Proof.
  intros [_ (_ & _ & _ & _ & Hinj)]. unfold visible_rings. rewrite tbl_of_curtbl.
  set (tb := curtbl (tables s) (cur s)) in *.
  assert (G : forall l off, (forall i r, nth i l None = Some r -> nth (off + i) tb None = Some r) ->
              NoDup (flat_map (fun c : option nat => match c with Some r => [r] | None => [] end) l)).
  { induction l as [|c l IH]; intros off Hl; [constructor|]. cbn [flat_map].
    assert (Hrest : NoDup (flat_map (fun c : option nat => match c with Some r => [r] | None => [] end) l)).
    { apply (IH (S off)). intros i r Hn. replace (S off + i) with (off + S i) by lia. apply Hl. exact Hn. }
    destruct c as [x|]; [|exact Hrest]. cbn [app]. constructor; [|exact Hrest].
    intros Hin. apply in_flat_map in Hin. destruct Hin as (c' & Hc' & Hx). destruct c' as [y|]; [|destruct Hx].
    destruct Hx as [->|[]]. apply In_nth with (d := None) in Hc'. destruct Hc' as (j & Hj & Hnj).
    assert (off + 0 = off + S j); [|lia].
    apply (Hinj (off + 0) (off + S j) x); [apply Hl; reflexivity|apply Hl; exact Hnj]. }
  apply (G tb 0). intros i r Hn. exact Hn.
Qed.

(* mutual exclusion of the spin lock *)
Theorem busy_mutex s : SInv s -> scnt crit (sths s) <= 1.
Proof. intros [HM _]. rewrite HM. apply b2n_le1. Qed.

(* ------------------------------------------------------------------ *)
(* accounting: an element is recorded in the rings exactly when its Add succeeded, and once *)

Definition placed (t : sthread) : bool :=
  match spc_ t with SDone SrSuccess => true | E5 | E9r => flag t | _ => false end.

Definition zcount (e : Z) (l : list Z) : nat := length (filter (Z.eqb e) l).

Lemma zcount_app e l1 l2 : zcount e (l1 ++ l2) = zcount e l1 + zcount e l2.
Proof. unfold zcount. rewrite filter_app, app_length. reflexivity. Qed.

Lemma zcount_concat_upd e x (rs : list (list Z)) : forall b,
  b < length rs ->
  zcount e (concat (upd b (nth b rs [] ++ [x]) rs)) = zcount e (concat rs) + b2n (Z.eqb e x).
Proof.
  induction rs as [|r rs IH]; intros b Hb; [cbn in Hb; lia|].
  destruct b as [|b]; cbn [upd concat nth].
  - rewrite !zcount_app. unfold zcount at 2. cbn [filter]. destruct (Z.eqb e x); cbn [length b2n]; lia.
  - rewrite !zcount_app. rewrite IH by (cbn [length] in Hb; lia). lia.
Qed.

Lemma zcount_concat_snoc e x (rs : list (list Z)) :
  zcount e (concat (rs ++ [[x]])) = zcount e (concat rs) + b2n (Z.eqb e x).
Proof.
  rewrite concat_app, zcount_app. cbn [concat app]. unfold zcount at 2. cbn [filter].
  destruct (Z.eqb e x); cbn [length b2n]; lia.
Qed.

Definition acc (e : Z) (t : sthread) : bool := Z.eqb e (elem t) && placed t.

Definition AInv (s : sstate) : Prop :=
  (forall j t, nth_error (sths s) j = Some t -> (spc_ t = A2 \/ spc_ t = E6) -> buf t < length (rings s)) /\
  (forall j t g, nth_error (sths s) j = Some t -> snap t = Some g -> g < length (tables s)) /\
  (forall e, zcount e (concat (rings s)) = scnt (acc e) (sths s)).

Lemma nth_error_upd_eq {A} (l : list A) i x : i < length l -> nth_error (upd i x l) i = Some x.
Proof. revert i. induction l as [|h t IH]; intros i H; [cbn in H; lia|]. destruct i; cbn [upd nth_error]; [reflexivity|apply IH; cbn in H; lia]. Qed.
Lemma nth_error_upd_neq {A} (l : list A) i j x : i <> j -> nth_error (upd i x l) j = nth_error l j.
Proof. revert i j. induction l as [|h t IH]; intros i j H; [destruct i; reflexivity|]. destruct i, j; cbn [upd nth_error]; try reflexivity; [lia|apply IH; lia]. Qed.

(* a cell read from any snapshot names an existing ring *)
Lemma snapshot_cell_valid s g i r :
  SInv s -> g < length (tables s) -> cell (nth g (tables s) []) i = Some r -> r < length (rings s).
Proof.
  intros [_ (Hv & Hm & Hlt & _)] Hg Hc.
  destruct (cell_spec (nth g (tables s) []) i) as [E|(r' & E & _ & Hn)]; rewrite E in Hc; [discriminate|].
  injection Hc as <-. exact (Hlt _ _ (Hm g _ _ Hg Hn)).
Qed.

Definition flagok (t : sthread) : Prop :=
  flag t = false \/ spc_ t = E5 \/ spc_ t = E9r \/ exists r, spc_ t = SDone r.

Definition AInv' (s : sstate) : Prop := AInv s /\ forall j t, nth_error (sths s) j = Some t -> flagok t.

Lemma nth_error_lt {A} (l : list A) i x : nth_error l i = Some x -> i < length l.
Proof. intros H. apply nth_error_Some. rewrite H. discriminate. Qed.

(* a step that changes only the stepping thread (and possibly [busy]) *)
Lemma AInv_local tbls c b b' rs ths m i t T :
  AInv' (mkSst tbls c b rs ths m) -> nth_error ths i = Some t ->
  (spc_ T = A2 \/ spc_ T = E6 -> buf T < length rs) ->
  (forall g, snap T = Some g -> g < length tbls) ->
  elem T = elem t -> placed T = placed t -> flagok T ->
  AInv' (mkSst tbls c b' rs (upd i T ths) m).
Proof.
  intros [(H1 & H2 & H3) H4] Hth Hb Hs He Hp Hf. cbn [sths rings tables] in *.
  pose proof (nth_error_lt _ _ _ Hth) as Hlt.
  split; [split; [|split]|]; cbn [sths rings tables].
  - intros j u Hj Hpc. destruct (Nat.eq_dec j i) as [->|Hne].
    + rewrite nth_error_upd_eq in Hj by assumption. injection Hj as <-. apply Hb. exact Hpc.
    + rewrite nth_error_upd_neq in Hj by lia. eapply H1; eassumption.
  - intros j u g Hj Hg. destruct (Nat.eq_dec j i) as [->|Hne].
    + rewrite nth_error_upd_eq in Hj by assumption. injection Hj as <-. apply Hs. exact Hg.
    + rewrite nth_error_upd_neq in Hj by lia. eapply H2; eassumption.
  - intros e. rewrite H3. pose proof (scnt_upd (acc e) T ths i t Hth) as Hc.
    unfold acc in Hc at 2 4. rewrite He, Hp in Hc. lia.
  - intros j u Hj. destruct (Nat.eq_dec j i) as [->|Hne].
    + rewrite nth_error_upd_eq in Hj by assumption. injection Hj as <-. exact Hf.
    + rewrite nth_error_upd_neq in Hj by lia. eapply H4; eassumption.
Qed.

(* a step that records the stepping thread's element: in an existing ring, or in a new ring *)
Lemma AInv_record tbls tbls' c c' b b' rs rs' ths m i t T :
  AInv' (mkSst tbls c b rs ths m) -> nth_error ths i = Some t ->
  placed t = false -> placed T = true -> elem T = elem t -> flagok T ->
  ~ (spc_ T = A2 \/ spc_ T = E6) ->
  (forall g, snap T = Some g -> g < length tbls') ->
  length tbls <= length tbls' -> length rs <= length rs' ->
  (forall e, zcount e (concat rs') = zcount e (concat rs) + b2n (Z.eqb e (elem t))) ->
  AInv' (mkSst tbls' c' b' rs' (upd i T ths) m).
Proof.
  intros [(H1 & H2 & H3) H4] Hth Hp0 Hp1 He Hf Hnb Hs Ht Hr Hcnt. cbn [sths rings tables] in *.
  pose proof (nth_error_lt _ _ _ Hth) as Hlt.
  split; [split; [|split]|]; cbn [sths rings tables].
  - intros j u Hj Hpc. destruct (Nat.eq_dec j i) as [->|Hne].
    + rewrite nth_error_upd_eq in Hj by assumption. injection Hj as <-. contradiction.
    + rewrite nth_error_upd_neq in Hj by lia. specialize (H1 j u Hj Hpc). lia.
  - intros j u g Hj Hg. destruct (Nat.eq_dec j i) as [->|Hne].
    + rewrite nth_error_upd_eq in Hj by assumption. injection Hj as <-. apply Hs. exact Hg.
    + rewrite nth_error_upd_neq in Hj by lia. specialize (H2 j u g Hj Hg). lia.
  - intros e. rewrite Hcnt, H3. pose proof (scnt_upd (acc e) T ths i t Hth) as Hc.
    unfold acc in Hc at 2 4. rewrite He, Hp0, Hp1 in Hc. rewrite andb_false_r, andb_true_r in Hc. cbn [b2n] in Hc. lia.
  - intros j u Hj. destruct (Nat.eq_dec j i) as [->|Hne].
    + rewrite nth_error_upd_eq in Hj by assumption. injection Hj as <-. exact Hf.
    + rewrite nth_error_upd_neq in Hj by lia. eapply H4; eassumption.
Qed.

Ltac ob1 := let E := fresh in intros [E|E]; discriminate E.
Ltac ob4 Epc := unfold placed; cbn [spc_ with_pc retry]; rewrite ?Epc; reflexivity.
Ltac ob5 Hfl Epc :=
  first [left; reflexivity
        |right; right; right; eexists; reflexivity
        |right; left; reflexivity | right; right; left; reflexivity
        |let F := fresh in destruct Hfl as [F|[F|[F|(? & F)]]]; try (rewrite Epc in F; discriminate F); left; exact F].

Lemma AInv_step s i o : SInv s -> AInv' s -> AInv' (sstep s i o).
Proof.
  intros HS HA. unfold sstep.
  destruct (nth_error (sths s) i) as [t|] eqn:Hth; [|exact HA].
  assert (Hsnap : forall g, snap t = Some g -> g < length (tables s)).
  { intros g Hg. destruct HA as [(_ & H2 & _) _]. exact (H2 i t g Hth Hg). }
  assert (Hfl : flagok t) by (destruct HA as [_ H4]; exact (H4 i t Hth)).
  assert (Hcur : forall g, cur s = Some g -> g < length (tables s)).
  { intros g Hg. destruct HS as [_ (Hv & _)]. rewrite Hg in Hv. lia. }
  assert (Hcell : forall r, cell (tbl_of s (snap t)) (idx t) = Some r -> r < length (rings s)).
  { intros r Hc. destruct (snap t) as [g|] eqn:Es; [|discriminate Hc].
    apply (snapshot_cell_valid s g (idx t) r HS (Hsnap g eq_refl) Hc). }
  destruct s as [tbls c b rs ths m]. cbn [sths tables cur busy rings maxlen] in *.
  unfold set_th. cbn [sths tables cur busy rings maxlen].
  destruct (spc_ t) eqn:Epc.
  - (* A0 *) destruct c as [g|] eqn:Ec.
    + eapply AInv_local; [exact HA|exact Hth|ob1| |reflexivity|ob4 Epc|ob5 Hfl Epc].
      cbn [snap]. intros g' Hg'. injection Hg' as <-. apply Hcur. reflexivity.
    + eapply AInv_local; [exact HA|exact Hth|ob1| |reflexivity|ob4 Epc|ob5 Hfl Epc]. cbn [snap]. discriminate.
  - (* A1 *) destruct (cell (tbl_of _ (snap t)) (idx t)) as [r|] eqn:Ecell.
    + eapply AInv_local; [exact HA|exact Hth| |exact Hsnap|reflexivity|ob4 Epc|ob5 Hfl Epc].
      intros _. cbn [buf]. apply Hcell. reflexivity.
    + eapply AInv_local; [exact HA|exact Hth|ob1|exact Hsnap|reflexivity|ob4 Epc|ob5 Hfl Epc].
  - (* A2 *) destruct o as [|[|o]].
    + assert (Hb : buf t < length rs) by (destruct HA as [(H1 & _) _]; apply (H1 i t Hth); left; exact Epc).
      eapply AInv_record; [exact HA|exact Hth|unfold placed; rewrite Epc; reflexivity|reflexivity|reflexivity|ob5 Hfl Epc|ob1|exact Hsnap|lia|rewrite upd_length; lia|].
      intros e. apply zcount_concat_upd. exact Hb.
    + eapply AInv_local; [exact HA|exact Hth|ob1|exact Hsnap|reflexivity|ob4 Epc|ob5 Hfl Epc].
    + eapply AInv_local; [exact HA|exact Hth|ob1|exact Hsnap|reflexivity|ob4 Epc|ob5 Hfl Epc].
  - (* E1 *) destruct (Nat.leb 3 (attempt t)).
    + eapply AInv_local; [exact HA|exact Hth|ob1|exact Hsnap|reflexivity|ob4 Epc|ob5 Hfl Epc].
    + destruct c as [g|] eqn:Ec.
      * eapply AInv_local; [exact HA|exact Hth|ob1| |reflexivity|ob4 Epc|ob5 Hfl Epc].
        cbn [snap]. intros g' Hg'. injection Hg' as <-. apply Hcur. reflexivity.
      * eapply AInv_local; [exact HA|exact Hth|ob1| |reflexivity|ob4 Epc|ob5 Hfl Epc]. cbn [snap]. discriminate.
  - (* E2 *) destruct (cell (tbl_of _ (snap t)) (idx t)) as [r|] eqn:Ecell.
    + destruct (wasunc t).
      * eapply AInv_local; [exact HA|exact Hth| |exact Hsnap|reflexivity|ob4 Epc|ob5 Hfl Epc].
        intros _. cbn [buf]. apply Hcell. reflexivity.
      * eapply AInv_local; [exact HA|exact Hth|ob1|exact Hsnap|reflexivity|ob4 Epc|ob5 Hfl Epc].
    + eapply AInv_local; [exact HA|exact Hth|ob1|exact Hsnap|reflexivity|ob4 Epc|ob5 Hfl Epc].
  - (* E3 *) destruct b; eapply AInv_local; [exact HA|exact Hth|ob1|exact Hsnap|reflexivity|ob4 Epc|ob5 Hfl Epc|exact HA|exact Hth|ob1|exact Hsnap|reflexivity|ob4 Epc|ob5 Hfl Epc].
  - (* E4 *)
    assert (Hf0 : flag t = false) by (destruct Hfl as [F|[F|[F|(? & F)]]]; [exact F|rewrite Epc in F; discriminate F..]).
    destruct c as [g|] eqn:Ec.
    + destruct (length (nth g tbls [])) eqn:El.
      * eapply AInv_local; [exact HA|exact Hth|ob1|exact Hsnap|reflexivity| |ob5 Hfl Epc].
        unfold placed. cbn [spc_ with_pc flag]. rewrite Epc, Hf0. reflexivity.
      * destruct (cell (nth g tbls []) (idx t)) eqn:Ecell.
        -- eapply AInv_local; [exact HA|exact Hth|ob1|exact Hsnap|reflexivity| |ob5 Hfl Epc].
           unfold placed. cbn [spc_ with_pc flag]. rewrite Epc, Hf0. reflexivity.
        -- eapply AInv_record; [exact HA|exact Hth|unfold placed; rewrite Epc; reflexivity|reflexivity|reflexivity|ob5 Hfl Epc|ob1| |rewrite upd_length; lia|rewrite app_length; lia|].
           ++ cbn [snap]. intros g' Hg'. rewrite upd_length. exact (Hsnap g' Hg').
           ++ intros e. apply zcount_concat_snoc.
    + eapply AInv_local; [exact HA|exact Hth|ob1|exact Hsnap|reflexivity| |ob5 Hfl Epc].
      unfold placed. cbn [spc_ with_pc flag]. rewrite Epc, Hf0. reflexivity.
  - (* E5 *) destruct (flag t) eqn:Ef.
    + eapply AInv_local; [exact HA|exact Hth|ob1|exact Hsnap|reflexivity| |ob5 Hfl Epc].
      unfold placed. cbn [spc_ with_pc]. rewrite Epc, Ef. reflexivity.
    + eapply AInv_local; [exact HA|exact Hth|ob1|exact Hsnap|reflexivity| |ob5 Hfl Epc].
      unfold placed. cbn [spc_ retry]. rewrite Epc, Ef. reflexivity.
  - (* E6 *) destruct o as [|[|o]].
    + assert (Hb : buf t < length rs) by (destruct HA as [(H1 & _) _]; apply (H1 i t Hth); right; exact Epc).
      eapply AInv_record; [exact HA|exact Hth|unfold placed; rewrite Epc; reflexivity|reflexivity|reflexivity|ob5 Hfl Epc|ob1|exact Hsnap|lia|rewrite upd_length; lia|].
      intros e. apply zcount_concat_upd. exact Hb.
    + eapply AInv_local; [exact HA|exact Hth|ob1|exact Hsnap|reflexivity|ob4 Epc|ob5 Hfl Epc].
    + eapply AInv_local; [exact HA|exact Hth|ob1|exact Hsnap|reflexivity|ob4 Epc|ob5 Hfl Epc].
  - (* E6b *)
    destruct (Nat.leb m (length (tbl_of _ (snap t))) || negb (opt_eqb c (snap t))).
    + eapply AInv_local; [exact HA|exact Hth|ob1|exact Hsnap|reflexivity|ob4 Epc|ob5 Hfl Epc].
    + destruct (negb (collide t)); eapply AInv_local; [exact HA|exact Hth|ob1|exact Hsnap|reflexivity|ob4 Epc|ob5 Hfl Epc|exact HA|exact Hth|ob1|exact Hsnap|reflexivity|ob4 Epc|ob5 Hfl Epc].
  - (* E7 *) destruct b; eapply AInv_local; [exact HA|exact Hth|ob1|exact Hsnap|reflexivity|ob4 Epc|ob5 Hfl Epc|exact HA|exact Hth|ob1|exact Hsnap|reflexivity|ob4 Epc|ob5 Hfl Epc].
  - (* E7c *)
    destruct c as [g|] eqn:Ec; [|eapply AInv_local; [exact HA|exact Hth|ob1|exact Hsnap|reflexivity|ob4 Epc|ob5 Hfl Epc]].
    destruct (snap t) as [g'|] eqn:Es; [|eapply AInv_local; [exact HA|exact Hth|ob1| |reflexivity|ob4 Epc|ob5 Hfl Epc]; cbn [snap with_pc]; rewrite Es; discriminate].
    destruct (Nat.eqb g g'); [|eapply AInv_local; [exact HA|exact Hth|ob1| |reflexivity|ob4 Epc|ob5 Hfl Epc]; cbn [snap with_pc]; rewrite Es; exact Hsnap].
    (* expansion: only the tables grow *)
    destruct HA as [(H1 & H2 & H3) H4]. cbn [sths rings tables] in *.
    pose proof (nth_error_lt _ _ _ Hth) as Hlt.
    split; [split; [|split]|]; cbn [sths rings tables].
    + intros j u Hj Hpc. destruct (Nat.eq_dec j i) as [->|Hne].
      * rewrite nth_error_upd_eq in Hj by assumption. injection Hj as <-. destruct Hpc as [E|E]; discriminate E.
      * rewrite nth_error_upd_neq in Hj by lia. eapply H1; eassumption.
    + intros j u g0 Hj Hg. rewrite app_length. cbn [length]. destruct (Nat.eq_dec j i) as [->|Hne].
      * rewrite nth_error_upd_eq in Hj by assumption. injection Hj as <-. cbn [snap with_pc] in Hg. specialize (H2 i t g0 Hth Hg). lia.
      * rewrite nth_error_upd_neq in Hj by lia. specialize (H2 j u g0 Hj Hg). lia.
    + intros e. rewrite H3. pose proof (scnt_upd (acc e) (with_pc t E8) ths i t Hth) as Hc.
      unfold acc in Hc at 2 4. unfold placed in Hc. cbn [spc_ with_pc elem] in Hc. rewrite Epc in Hc. lia.
    + intros j u Hj. destruct (Nat.eq_dec j i) as [->|Hne].
      * rewrite nth_error_upd_eq in Hj by assumption. injection Hj as <-. ob5 Hfl Epc.
      * rewrite nth_error_upd_neq in Hj by lia. eapply H4; eassumption.
  - (* E8 *) eapply AInv_local; [exact HA|exact Hth|ob1|exact Hsnap|reflexivity|ob4 Epc|ob5 Hfl Epc].
  - (* E9 *) destruct o as [|o]; [destruct b|]; eapply AInv_local; [exact HA|exact Hth|ob1|exact Hsnap|reflexivity|ob4 Epc|ob5 Hfl Epc|exact HA|exact Hth|ob1|exact Hsnap|reflexivity|ob4 Epc|ob5 Hfl Epc|exact HA|exact Hth|ob1|exact Hsnap|reflexivity|ob4 Epc|ob5 Hfl Epc].
  - (* E9c *)
    assert (Hf0 : flag t = false) by (destruct Hfl as [F|[F|[F|(? & F)]]]; [exact F|rewrite Epc in F; discriminate F..]).
    destruct c as [g|] eqn:Ec.
    + eapply AInv_local; [exact HA|exact Hth|ob1|exact Hsnap|reflexivity| |ob5 Hfl Epc].
      unfold placed. cbn [spc_ with_pc flag]. rewrite Epc, Hf0. reflexivity.
    + eapply AInv_record; [exact HA|exact Hth|unfold placed; rewrite Epc; reflexivity|reflexivity|reflexivity|ob5 Hfl Epc|ob1| |rewrite app_length; lia|rewrite app_length; lia|].
      * cbn [snap]. intros g' Hg'. rewrite app_length. specialize (Hsnap g' Hg'). lia.
      * intros e. apply zcount_concat_snoc.
  - (* E9r *) destruct (flag t) eqn:Ef.
    + eapply AInv_local; [exact HA|exact Hth|ob1|exact Hsnap|reflexivity| |ob5 Hfl Epc].
      unfold placed. cbn [spc_ with_pc]. rewrite Epc, Ef. reflexivity.
    + eapply AInv_local; [exact HA|exact Hth|ob1|exact Hsnap|reflexivity| |ob5 Hfl Epc].
      unfold placed. cbn [spc_ retry]. rewrite Epc, Ef. reflexivity.
  - (* SDone *) exact HA.
Qed.

Lemma AInv_init maxl elems idxs : AInv' (sinit maxl elems idxs).
Proof.
  unfold sinit. split; [split; [|split]|]; cbn [sths rings tables].
  - intros j t Hj Hpc. apply nth_error_In in Hj. apply in_map_iff in Hj. destruct Hj as ([e i] & <- & _).
    destruct Hpc as [E|E]; discriminate E.
  - intros j t g Hj Hg. apply nth_error_In in Hj. apply in_map_iff in Hj. destruct Hj as ([e i] & <- & _). discriminate Hg.
  - intros e. cbn [concat]. induction (combine elems idxs) as [|[e' i'] l IH]; [reflexivity|].
    cbn [map]. rewrite scnt_cons. unfold acc at 1. unfold placed. cbn [spc_]. rewrite andb_false_r. exact IH.
  - intros j t Hj. apply nth_error_In in Hj. apply in_map_iff in Hj. destruct Hj as ([e i] & <- & _). left. reflexivity.
Qed.

Theorem AInv_run sched : forall s, SInv s -> AInv' s -> SInv (srun s sched) /\ AInv' (srun s sched).
Proof.
  induction sched as [|[i o] rest IH]; intros s HS HA; [split; assumption|].
  cbn [srun fold_left fst snd]. apply IH; [apply SInv_step; exact HS|apply AInv_step; assumption].
Qed.

Lemma map_elem_upd (l : list sthread) i T t :
  nth_error l i = Some t -> elem T = elem t -> map elem (upd i T l) = map elem l.
Proof.
  revert i. induction l as [|h r IH]; intros i H E; [destruct i; discriminate H|].
  destruct i; cbn [nth_error upd map] in *; [injection H as ->; rewrite E; reflexivity|rewrite (IH i H E); reflexivity].
Qed.

Lemma sstep_elems s i o : map elem (sths (sstep s i o)) = map elem (sths s).
Proof.
  unfold sstep. destruct (nth_error (sths s) i) as [t|] eqn:Hth; [|reflexivity].
  unfold set_th.
  destruct (spc_ t); repeat match goal with
    | |- context [match ?x with _ => _ end] => destruct x
    | |- context [if ?x then _ else _] => destruct x
    end; cbn [sths]; try reflexivity; apply (map_elem_upd _ _ _ t Hth); reflexivity.
Qed.

Lemma srun_elems sched : forall s, map elem (sths (srun s sched)) = map elem (sths s).
Proof.
  induction sched as [|[i o] rest IH]; intros s; [reflexivity|]. unfold srun in *. cbn [fold_left fst snd]. rewrite IH. apply sstep_elems.
Qed.

Lemma scnt_zero f (l : list sthread) : (forall u, In u l -> f u = false) -> scnt f l = 0.
Proof.
  induction l as [|h r IH]; intros H; [reflexivity|]. rewrite scnt_cons. rewrite (H h (or_introl eq_refl)).
  rewrite IH; [reflexivity|]. intros u Hu. apply H. right. exact Hu.
Qed.

Lemma scnt_acc_unique (l : list sthread) : forall j t,
  NoDup (map elem l) -> nth_error l j = Some t -> scnt (acc (elem t)) l = b2n (placed t).
Proof.
  induction l as [|h r IH]; intros j t Hnd Hj; [destruct j; discriminate Hj|].
  cbn [map] in Hnd. inversion Hnd as [|? ? Hn Hnd']; subst. rewrite scnt_cons.
  destruct j as [|j]; cbn [nth_error] in Hj.
  - injection Hj as ->. unfold acc at 1. rewrite Z.eqb_refl. cbn [andb].
    assert (scnt (acc (elem t)) r = 0) as ->; [|lia].
    apply scnt_zero. intros u Hu. unfold acc. destruct (Z.eqb_spec (elem t) (elem u)) as [E|]; [|reflexivity].
    exfalso. apply Hn. rewrite E. apply in_map. exact Hu.
  - rewrite (IH j t Hnd' Hj). unfold acc. destruct (Z.eqb_spec (elem t) (elem h)) as [E|]; [|cbn [andb b2n]; lia].
    exfalso. apply Hn. rewrite <- E. apply in_map. eapply nth_error_In. exact Hj.
Qed.

(* distinct elements, any schedule: an element is in the rings exactly once if its Add has succeeded
   (or is about to return Success), and not at all otherwise *)
Theorem recorded_iff_success maxl elems idxs sched j t :
  NoDup elems -> length idxs = length elems ->
  let s := srun (sinit maxl elems idxs) sched in
  nth_error (sths s) j = Some t ->
  zcount (elem t) (concat (rings s)) = b2n (placed t).
Proof.
  intros Hnd Hlen s Hj.
  destruct (AInv_run sched _ (SInv_init maxl elems idxs) (AInv_init maxl elems idxs)) as [_ [(_ & _ & H3) _]].
  fold s in H3. rewrite H3. apply (scnt_acc_unique _ j t); [|exact Hj].
  unfold s. rewrite srun_elems. unfold sinit. cbn [sths]. rewrite map_map.
  assert (E : map (fun x : Z * nat => elem (let '(e, i) := x in mkSth A0 e i None 0 0 true true false)) (combine elems idxs) = elems).
  { clear -Hlen. revert idxs Hlen. induction elems as [|e es IH]; intros [|i is] Hl; cbn in *; try reflexivity; try lia.
    rewrite IH by lia. reflexivity. }
  rewrite E. exact Hnd.
Qed.
