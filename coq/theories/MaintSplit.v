(* MaintSplit.v — index actions INSIDE a maintenance run.  cache.maintenance drains the two buffers and
   then expires, evicts and climbs while holding only the eviction lock; a write needs no lock, so its
   index action and its task can land after the drain and before (or between) the removals — a node the
   run is about to expire or evict may already have been replaced or invalidated, with the task that
   says so still in the write buffer.  Here a run is split into its two parts and the bookkeeping
   invariant is shown to be preserved by each, for ANY pending tasks: so it holds for every event list
   in which index actions, task arrivals and reads are interleaved with the halves of maintenance runs,
   and the quiescent agreement (deques = entries present, counters = sums) follows as before. *)
From Otter Require Import Base Sketch Policy Wheel Maint PolicyFacts PolicyInv.
From Coq Require Import List ZArith Lia.
Import ListNotations.

Lemma m_maintenance_split hashf cur rnd now adj m :
  m_maintenance hashf cur rnd now adj m =
  let '(m2, evt) := m_maint_pre hashf cur m in
  let '(m5, ex, evd) := m_maint_post hashf cur rnd now adj m2 in (m5, ex, evt, evd).
Proof.
  unfold m_maintenance, m_maint_pre, m_maint_post.
  destruct (m_run_tasks _ _ _ _ _) as [m2 evt].
  destruct (m_expire m2).
  - destruct (wheel_delete_expired cur (whl m2) now) as [w ids].
    destruct (m_evict (m_evict_all (with_whl m2 w) ids)); [destruct (pol_evict_nodes _ _ _)|]; reflexivity.
  - destruct (m_evict m2); [destruct (pol_evict_nodes _ _ _)|]; reflexivity.
Qed.

(* the drain part consumes the write buffer: what stays pending is what is still in flight *)
Theorem MI_maint_pre hashf cur m fl :
  MI m (fl ++ wbuf m) ->
  let m' := fst (m_maint_pre hashf cur m) in MI m' fl /\ wbuf m' = [].
Proof.
  intros HM. unfold m_maint_pre.
  set (m1 := if skip_read_buffer m then m else with_rbuf (fold_left (m_on_access hashf cur) (rbuf m) m) []).
  assert (H1 : MI m1 (fl ++ wbuf m) /\ wbuf m1 = wbuf m).
  { unfold m1. destruct (skip_read_buffer m); [split; [exact HM|reflexivity]|].
    destruct (MI_on_access_fold hashf cur (rbuf m) m _ HM) as [A B]. split; [exact A|exact B]. }
  destruct H1 as [H1 Ew1]. rewrite Ew1.
  assert (H1' : MI (with_wbuf m1 []) (fl ++ wbuf m)) by exact H1.
  destruct (MI_run_tasks hashf cur (wbuf m) (with_wbuf m1 []) fl [] H1') as [H2 Ew2].
  split; [exact H2|exact Ew2].
Qed.

(* the expire / evict / climb part preserves the invariant whatever is pending — in particular tasks
   that reached the write buffer after the drain — and leaves the write buffer alone *)
Theorem MI_maint_post hashf cur rnd now adj m pd :
  MI m pd ->
  let m' := fst (fst (m_maint_post hashf cur rnd now adj m)) in MI m' pd /\ wbuf m' = wbuf m.
Proof.
  intros H2. unfold m_maint_post.
  assert (H3 : exists m3 expired, (if m_expire m then let '(w, ids) := wheel_delete_expired cur (whl m) now in (m_evict_all (with_whl m w) ids, ids) else (m, [])) = (m3, expired)
                 /\ MI m3 pd /\ wbuf m3 = wbuf m).
  { destruct (m_expire m).
    - destruct (wheel_delete_expired cur (whl m) now) as [w ids].
      destruct (MI_evict_all ids (with_whl m w) pd H2) as [A B]. eexists _, _. split; [reflexivity|]. split; [exact A|rewrite B; reflexivity].
    - eexists _, _. split; [reflexivity|]. split; [assumption|reflexivity]. }
  destruct H3 as (m3 & expired & E3 & H3 & Ew3). rewrite E3.
  destruct H3 as [He3 HP3]. rewrite He3.
  pose proof (PIX_pol_evict_nodes 0 0 0 _ _ _ hashf rnd (pol m3) HP3) as H4.
  destruct (pol_evict_nodes hashf rnd (pol m3)) as [p ids]. cbn [fst] in H4.
  pose proof (fold_wheel_delete_pol ids (with_pol m3 p)) as (A & B & C & _). cbv zeta in A, B, C.
  set (m4 := fold_left (fun mm id => if m_expire mm then with_whl mm (wheel_delete (whl mm) id) else mm) ids (with_pol m3 p)) in *.
  cbv zeta. rewrite B. cbn [m_evict with_pol]. rewrite He3. cbn [fst].
  split; [split; [cbn [m_evict with_pol]; rewrite B; exact He3|]|cbn [wbuf with_pol]; rewrite C; exact Ew3].
  cbn [pol with_pol]. apply PIX_pol_climb_adj. rewrite A. exact H4.
Qed.

(* ---- the event system with split maintenance runs *)
Inductive mevx :=
| XE (e : mev)                                  (* everything of PolicyInv.mev, whole maintenance runs included *)
| XPre (cur : Z -> Z)                           (* a run drains the read buffer and the write buffer *)
| XPost (cur : Z -> Z) (rnd now adj : Z).       (* ... and later expires, evicts and climbs *)

Definition sysx_step (hashf : Z -> Z -> Z) (s : msys) (x : mevx) : msys :=
  match x with
  | XE e => sys_step hashf s e
  | XPre cur => mkSys (fst (m_maint_pre hashf cur (sm s))) (sfl s)
  | XPost cur rnd now adj => mkSys (fst (fst (m_maint_post hashf cur rnd now adj (sm s)))) (sfl s)
  end.

Definition evx_ok (s : msys) (x : mevx) : Prop := match x with XE e => ev_ok s e | _ => True end.

Fixpoint runx_ok (hashf : Z -> Z -> Z) (s : msys) (xs : list mevx) : Prop :=
  match xs with
  | [] => True
  | x :: xs' => evx_ok s x /\ runx_ok hashf (sysx_step hashf s x) xs'
  end.

Lemma SX_step hashf s x : SI s -> evx_ok s x -> SI (sysx_step hashf s x).
Proof.
  intros HS Hok. destruct x as [e|cur|cur rnd now adj]; cbn [sysx_step evx_ok] in *.
  - apply SI_step; assumption.
  - unfold SI, pend in *. cbn [sm sfl].
    destruct (MI_maint_pre hashf cur (sm s) (sfl s) HS) as [A B]. rewrite B, app_nil_r. exact A.
  - unfold SI, pend in *. cbn [sm sfl].
    destruct (MI_maint_post hashf cur rnd now adj (sm s) _ HS) as [A B]. rewrite B. exact A.
Qed.

Theorem SX_run hashf xs : forall s, SI s -> runx_ok hashf s xs -> SI (fold_left (sysx_step hashf) xs s).
Proof.
  induction xs as [|x xs IH]; intros s HS Hok; cbn [fold_left]; [exact HS|].
  destruct Hok as [H1 H2]. apply IH; [apply SX_step; assumption|exact H2].
Qed.

(* a whole run is its two halves back to back *)
Lemma sysx_pre_post hashf s cur rnd now adj :
  sysx_step hashf (sysx_step hashf s (XPre cur)) (XPost cur rnd now adj) = sys_step hashf s (EMaint cur rnd now adj).
Proof.
  cbn [sysx_step sys_step sm sfl]. rewrite m_maintenance_split.
  destruct (m_maint_pre hashf cur (sm s)) as [m2 evt]. cbn [fst].
  destruct (m_maint_post hashf cur rnd now adj m2) as [[m5 ex] evd]. reflexivity.
Qed.

(* whenever nothing is pending, the policy agrees with the table — also when writes landed inside runs *)
Theorem policy_quiescent_x hashf xs expire weighted :
  runx_ok hashf (sys0 expire weighted) xs ->
  let s := fold_left (sysx_step hashf) xs (sys0 expire weighted) in
  pend s = [] ->
  let p := pol (sm s) in
  NoDup (qwin p ++ qprob p ++ qprot p) /\
  (forall id, linked p id <-> alive_in p id) /\
  wsize p = wrapu (sum_weights p (qwin p ++ qprob p ++ qprot p)) /\
  wwsize p = wrapu (sum_weights p (qwin p)) /\
  pwsize p = wrapu (sum_weights p (qprot p)).
Proof.
  intros Hok s Hq p.
  pose proof (SX_run hashf xs (sys0 expire weighted) (SI_sys0 expire weighted) Hok) as [_ HP]. fold s in HP. rewrite Hq in HP. fold p in HP.
  split; [exact (quiescent_nodup p HP)|]. split; [exact (quiescent_linked_iff_alive p HP)|].
  split; [exact (quiescent_weighted_size p HP)|]. split; [exact (quiescent_window_size p HP)|exact (quiescent_protected_size p HP)].
Qed.
