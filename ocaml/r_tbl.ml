(* r_tbl.ml — replays a "tbl" engine trace on the extracted model of the hash table's concurrency
   protocol (HashMapConc.v).  A macro step of the implementation (one goroutine from hook point to hook
   point, to a block, or to its return) is a run of small steps of the model; the step inputs (must the
   table grow first, is a shrink attempted, does the attempt give up, which bucket is copied next) are
   read off the observation (was the function invoked, where did the thread stop).  Compared after every
   macro step: every thread's position, the table length, the resizing flag, the binding each invoked
   function was given; at the end of a thread, the value a Get returned; at the end of the case, the
   table's content and size. *)
open Util
module M = Model

let hashes : (int * string, int) Hashtbl.t = Hashtbl.create 1024
let hx (g : M.nat) (k : M.z) : M.nat =
  match Hashtbl.find_opt hashes (int_of_nat g, string_of_mz k) with
  | Some b -> nat_of_int b
  | None -> M.O

(* the keys of the case (the model's resize counts the entries it copies among them) *)
let ku : M.z list ref = ref []

let nth_th (s : M.hcstate) (i : int) : M.hthread = List.nth (M.hths s) i

let smallest_uncopied (s : M.hcstate) (t : M.hthread) : int option =
  let n = int_of_nat (M.len_of s (M.hsnap t)) in
  let rec go b = if b >= n then None else if M.hcop t (nat_of_int b) then go (b + 1) else Some b in
  go 0

let show_opt = function Some v -> string_of_mz v | None -> "-"

(* advance thread i towards the observed label; returns the label the model stops at *)
let advance (lineno : int) (s : M.hcstate ref) (i : int) (target : string) (flog : (int * (bool * string)) list) (off : int) : string =
  let step o = s := M.hstep hx !ku !s (nat_of_int i) (nat_of_int o) in
  let fuel = ref 600 in
  let result = ref "" in
  while !result = "" && !fuel > 0 do
    decr fuel;
    let t = nth_th !s i in
    (match M.hpc_ t with
     | M.W0 -> step 0; result := Printf.sprintf "P31:%d" (int_of_nat (M.hbi (nth_th !s i)))
     | M.W1 ->
       if M.lk !s (M.hsnap t) (M.hbi t) then result := "B" else (step 0; result := "P32")
     | M.W2 -> step 0; (match M.hpc_ (nth_th !s i) with M.Wwait -> result := "C" | _ -> result := "P33")
     | M.W3 -> step 0; (match M.hpc_ (nth_th !s i) with M.W4 -> result := "P34" | _ -> ())
     | M.W4 ->
       (match List.assoc_opt (i - off) flog with
        | Some (found, old) ->
          let cur = M.stores !s (M.hsnap t) (M.hkey t) in
          (match cur, found with
           | Some v, true when string_of_mz v = old -> ()
           | None, false -> ()
           | _ -> mismatch "tbl" lineno "thread %d: the function was given (%b,%s), the model's table holds %s" (i - off) found old (show_opt cur));
          count "functions_checked";
          step 0; step 0;   (* update, unlock *)
          if target = "P43" then (result := "P43"; count "parked_before_size_update")
          else begin
            step 0;         (* add to the size counter *)
            if target = "D" then (step 0; result := "D") else (step 1; result := "P35"; count "shrink_attempts")
          end
        | None -> step 1; result := "P35"; count "grow_before_update")
     | M.Wadd ->
       step 0;
       if target = "D" then (step 0; result := "D") else (step 1; result := "P35"; count "shrink_attempts")
     | M.W5 | M.W6 -> mismatch "tbl" lineno "thread %d rests at a transient position" (i - off); result := "?"
     | M.R0 ->
       if M.resizing !s then (step 0; result := "C")
       else if target = "P39" then (step 1; result := "P39"; count "resize_give_up")
       else (step 0; result := "P36")
     | M.R1 ->
       (match smallest_uncopied !s t with
        | None -> step 0; result := "P38"
        | Some b ->
          if target = Printf.sprintf "P37:%d" b then result := target
          else if M.lk !s (M.hsnap t) (nat_of_int b) then result := "B"
          else (step b; count "buckets_copied"))
     | M.R2 -> step 0; result := "P39"; count "tables_published"
     | M.R3 -> step 0; (match M.hpc_ (nth_th !s i) with M.HDone -> result := "D" | _ -> ())
     | M.Wwait -> if M.resizing !s then result := "C" else step 0
     | M.Rwait ->
       if M.resizing !s then result := "C"
       else (step 0; match M.hpc_ (nth_th !s i) with M.HDone -> result := "D" | _ -> ())
     | M.G0 -> step 0; result := "P40"
     | M.G1 -> step 0; result := "D=" ^ show_opt (M.hres (nth_th !s i))
     | M.HDone -> result := "D"
     | M.GDone -> result := "D=" ^ show_opt (M.hres t)
     | M.I0 -> step 0; result := "P41"
     | M.I1 ->
       let b = int_of_nat (M.hbi t) in
       if b >= int_of_nat (M.len_of !s (M.hsnap t)) then (step 0; result := "D")
       else if target = Printf.sprintf "P42:%d" b then result := target
       else if M.lk !s (M.hsnap t) (M.hbi t) then result := "B"
       else (step 0; count "buckets_iterated")
     | M.IDone -> result := "D")
  done;
  if !result = "" then "?" else !result

let run (path : string) : unit =
  let s = ref (M.hinit (nat_of_int 1) []) in
  let labels : string array ref = ref [||] in
  let off = ref 0 in
  let started = ref 0 in
  let released : int option ref = ref None in
  let flog = ref [] in
  let dead = ref true in
  let universe = ref [] in
  let final : (string * string) list ref = ref [] in
  let ylog : (int * (string * string)) list ref = ref [] in
  let ychecked : (int, unit) Hashtbl.t = Hashtbl.create 8 in
  (* read the whole trace: the model is given every thread of a case up front *)
  let lines = ref [] in
  iter_lines path (fun n w -> lines := (n, w) :: !lines);
  let arr = Array.of_list (List.rev !lines) in
  let total = Array.length arr in
  let fn_of op v : M.z option -> M.z option =
    match op with
    | 1 -> fun _ -> Some (mz_of_int v)
    | 2 -> fun _ -> None
    | 3 -> fun cur -> (match cur with Some x -> Some (mz_of_z (Z.add (z_of_mz x) (Z.of_int v))) | None -> None)
    | _ -> fun cur -> cur in
  let start_case (idx : int) (n0 : int) =
    (* collect PRE and N lines up to the next CASE *)
    let pre = ref [] and ths = ref [] in
    let j = ref (idx + 1) in
    while !j < total && (match snd arr.(!j) with "CASE" :: _ -> false | _ -> true) do
      (match snd arr.(!j) with
       | ["PRE"; k; v] -> pre := M.HCompute (mz_of_string k, (fun _ -> Some (mz_of_string v))) :: !pre
       | ["N"; "W"; k; op; v] -> ths := M.HCompute (mz_of_string k, fn_of (int_of_string op) (int_of_string v)) :: !ths
       | ["N"; "G"; k] -> ths := M.HGet (mz_of_string k) :: !ths
       | ["N"; "I"] -> ths := M.HRange :: !ths
       | _ -> ());
      incr j
    done;
    let pre = List.rev !pre and ths = List.rev !ths in
    off := List.length pre;
    s := M.hinit (nat_of_int n0) (pre @ ths);
    (* the preloaded content: each preload writer runs alone to completion *)
    List.iteri (fun i _ -> for _ = 1 to 8 do s := M.hstep hx !ku !s (nat_of_int i) M.O done) pre;
    labels := Array.make (List.length ths) "";
    started := 0; released := None; flog := []; dead := false; final := []; ylog := []; Hashtbl.reset ychecked;
    count "cases" in
  Array.iteri (fun idx (lineno, w) ->
      match w with
      | ["CASE"; _; n0] -> Hashtbl.reset hashes; universe := []; dead := true;
        (* the hashes of version 0 follow the CASE line: read them before building the state *)
        let j = ref (idx + 1) in
        let fin = ref false in
        while not !fin && !j < total do
          (match snd arr.(!j) with
           | ["H"; _; _] -> ()
           | ["K"; g; k; b] -> Hashtbl.replace hashes (int_of_string g, k) (int_of_string b);
             if g = "0" then universe := k :: !universe
           | _ -> fin := true);
          incr j
        done;
        ku := List.map mz_of_string !universe;
        start_case idx (int_of_string n0)
      | _ when !dead -> ()
      | ["H"; _; _] -> ()
      | ["K"; g; k; b] -> Hashtbl.replace hashes (int_of_string g, k) (int_of_string b)
      | "PRE" :: _ -> ()
      | "N" :: _ -> released := Some !started; incr started
      | ["S"; i] -> released := Some (int_of_string i)
      | ["F"; i; found; old] -> flog := (int_of_string i, (found = "1", old)) :: !flog
      | ["Y"; i; k; v] -> ylog := (int_of_string i, (k, v)) :: !ylog
      | "O" :: len :: rz :: obs ->
        let obs = Array.of_list obs in
        let n = Array.length obs in
        (match !released with
         | Some i when i < n ->
           let l = advance lineno s (!off + i) obs.(i) !flog !off in
           !labels.(i) <- l
         | _ -> ());
        (* threads that moved without being released: waiters that were woken.  Two waiters of one lock are
           served in an order the observation does not name: try the orders until one reproduces it. *)
        let woken = List.filter (fun j -> !labels.(j) <> obs.(j) && (!labels.(j) = "B" || !labels.(j) = "C")) (List.init n (fun j -> j)) in
        let rec perms l = match l with
          | [] -> [[]]
          | _ -> List.concat_map (fun x -> List.map (fun r -> x :: r) (perms (List.filter (fun y -> y <> x) l))) l in
        let orders = if List.length woken <= 4 then perms woken else [woken; List.rev woken] in
        let s0 = !s and l0 = Array.copy !labels in
        let attempt order =
          s := s0; labels := Array.copy l0;
          for _ = 1 to 2 do
            List.iter (fun j ->
                if !labels.(j) <> obs.(j) then !labels.(j) <- advance lineno s (!off + j) obs.(j) !flog !off) order
          done;
          List.for_all (fun j -> !labels.(j) = obs.(j)) order in
        let saved_mis = !mismatches in
        if woken <> [] then begin
          if List.exists attempt orders then countn "woken_waiters" (List.length woken)
          else ignore (attempt woken);
          (* mismatches printed by abandoned attempts (none: advance reports only function bindings) *)
          ignore saved_mis
        end;
        let bad = ref false in
        for j = 0 to n - 1 do
          if !labels.(j) <> obs.(j) then begin
            bad := true;
            mismatch "tbl" lineno "thread %d: implementation at %s, model at %s" j obs.(j) !labels.(j)
          end
        done;
        (* a Range that has returned: what it yielded, key by key, is what the model's iteration yielded *)
        List.iteri (fun gi t ->
            let j = gi - !off in
            if j >= 0 && j < n && not (Hashtbl.mem ychecked j) then
              match M.hpc_ t with
              | M.IDone when obs.(j) = "D" ->
                Hashtbl.replace ychecked j ();
                let mine = List.filter_map (fun (i, kv) -> if i = j then Some kv else None) !ylog in
                List.iter (fun k ->
                    let mv = M.hyield t (mz_of_string k) and iv = List.assoc_opt k mine in
                    if not (match mv, iv with Some a, Some b -> string_of_mz a = b | None, None -> true | _ -> false) then begin
                      bad := true;
                      mismatch "tbl" lineno "Range thread %d, key %s: implementation yielded %s, model %s" j k
                        (match iv with Some b -> b | None -> "-") (show_opt mv)
                    end) !universe;
                List.iter (fun (k, _) -> if not (List.mem k !universe) then mismatch "tbl" lineno "Range thread %d yielded key %s, which no step of the case bound" j k) mine;
                count "iterations_compared"
              | _ -> ()) (M.hths !s);
        let mlen = int_of_nat (M.len_of !s (M.hcur !s)) in
        if string_of_int mlen <> len then (bad := true; mismatch "tbl" lineno "table length: implementation %s, model %d" len mlen);
        if (if M.resizing !s then "1" else "0") <> rz then (bad := true; mismatch "tbl" lineno "resizing flag: implementation %s, model %b" rz (M.resizing !s));
        count "macro_steps";
        released := None; flog := [];
        if !bad then dead := true
      | ["Z"; k; v] -> final := (k, v) :: !final
      | ["END"; size] ->
        let cnt = ref 0 in
        List.iter (fun k ->
            let mv = M.stores !s (M.hcur !s) (mz_of_string k) in
            (match mv with Some _ -> incr cnt | None -> ());
            let iv = List.assoc_opt k !final in
            if (match mv, iv with Some a, Some b -> string_of_mz a = b | None, None -> true | _ -> false) then ()
            else mismatch "tbl" lineno "final binding of key %s: implementation %s, model %s" k
                (match iv with Some b -> b | None -> "-") (show_opt mv)) !universe;
        if string_of_int !cnt <> size then mismatch "tbl" lineno "final size: implementation %s, model %d" size !cnt;
        let mc = string_of_mz (M.cnt !s (M.hcur !s)) in
        if mc <> size then mismatch "tbl" lineno "final Size(): implementation %s, the model's counter %s" size mc;
        (* every finished writer of the model has applied its function once *)
        List.iteri (fun i t -> if i >= !off then
                       match M.hpc_ t with
                       | M.HDone -> if int_of_nat (M.happ t) <> 1 then mismatch "tbl" lineno "model thread %d finished having applied %d times" (i - !off) (int_of_nat (M.happ t))
                       | _ -> ()) (M.hths !s);
        count "cases_compared_to_the_end";
        dead := true
      | ["ABORT"] -> dead := true; count "cases_aborted"
      | _ -> ()) arr
