(* C12 — Expiration and refresh deadlines are computed exactly and without overflow. *)
From Otter Require Import Base Seq Spec SeqRefine SeqFacts.

(* now + duration saturates: never in the past, never wraps; MaxInt64 means "never" *)
Theorem C12_no_wrap : forall now d, time_ok now -> 0 < d <= MaxInt64 ->
  now < satadd now d <= MaxInt64 /\ satadd now d = Z.min MaxInt64 (now + d) /\
  (d = MaxInt64 -> satadd now d = MaxInt64).
Proof. exact satadd_no_wrap. Qed.
Print Assumptions C12_no_wrap.

(* create (absent key, or an expired-but-unswept one): expiration = now + ExpireAfterCreate *)
Theorem C12_exact_create : forall c, cfg_ok c -> forall k v old cl now,
  with_exp c = true -> time_ok now ->
  (old = None \/ exists o, old = Some o /\ has_expired c o now = true /\ node_ok o) ->
  nexp (fst (atomic_set c k v old cl now)) = satadd now (exp_create c k v 0).
Proof. exact create_exp. Qed.
Print Assumptions C12_exact_create.

(* update of a live entry: now + ExpireAfterUpdate for a positive duration; a calculator that
   returns the entry's current ExpiresAfter() leaves the deadline where it is *)
Theorem C12_exact_update : forall c, cfg_ok c -> forall k v o cl now,
  with_exp c = true -> time_ok now -> node_ok o -> has_expired c o now = false ->
  let d := exp_update c k v (nval o) (nexp o - now) in
  nexp (fst (atomic_set c k v (Some o) cl now)) = (if 0 <? d then satadd now d else nexp o) /\
  (d = nexp o - now -> nexp (fst (atomic_set c k v (Some o) cl now)) = nexp o).
Proof.
  intros c CO k v o cl now Hw Ht On X d. pose proof (update_exp c CO k v o cl now Hw Ht On X) as E.
  cbv zeta in E. fold d in E. split; [exact E|].
  intros Hd. rewrite E. destruct (0 <? d) eqn:Ed; [|reflexivity].
  destruct On as [He Hr]. unfold time_ok in Ht.
  unfold has_expired in X. rewrite Hw in X. cbn [andb] in X.
  rewrite satadd_spec by lia. lia.
Qed.
Print Assumptions C12_exact_update.

(* read of a live entry (access-reset policies and custom calculators) *)
Theorem C12_exact_read : forall c, cfg_ok c -> forall k n now,
  with_exp c = true -> time_ok now -> node_ok n -> has_expired c n now = false ->
  let d := exp_read c k (nval n) (nexp n - now) in
  nexp (calc_exp_read c k n now) = if 0 <? d then satadd now d else nexp n.
Proof. exact read_exp. Qed.
Print Assumptions C12_exact_read.

(* SetExpiresAfter overrides the deadline of a live entry and only of a live entry *)
Theorem C12_set_expires_after : forall c s k d now,
  (forall n, with_exp c = true -> time_ok now -> 0 < d <= MaxInt64 -> node_ok n ->
     lookup k (cmap s) = Some n -> has_expired c n now = false ->
     lookup k (cmap (do_set_expires_after c s k d now)) = Some (mkNode (nval n) (nweight n) (satadd now d) (nrefr n))) /\
  ((lookup k (cmap s) = None \/ exists n, lookup k (cmap s) = Some n /\ has_expired c n now = true) ->
     do_set_expires_after c s k d now = s).
Proof.
  intros c s k d now. split.
  - intros n Hw Ht Hd On L X. exact (set_expires_after_live c s k d n now Hw Ht Hd On L X).
  - exact (set_expires_after_dead c s k d now).
Qed.
Print Assumptions C12_set_expires_after.

(* the entry is visible exactly while the clock is before its expiration time *)
Theorem C12_visibility : forall c s k now, with_exp c = true ->
  (exists n, get_node_quietly c s k now = Some n) <-> (exists n, lookup k (cmap s) = Some n /\ now < nexp n).
Proof. exact visible_iff. Qed.
Print Assumptions C12_visibility.

(* deadlines stay within [0, MaxInt64] in every reachable state: the invariant of C01's refinement *)
Theorem C12_deadlines_in_range : forall c, cfg_ok c -> forall k v old cl now,
  time_ok now -> (forall o, old = Some o -> node_ok o) -> node_ok (fst (atomic_set c k v old cl now)).
Proof. exact atomic_set_ok. Qed.
Print Assumptions C12_deadlines_in_range.

Example C12_nonvacuous :
  time_ok 1800000000000000000 /\ satadd 1800000000000000000 MaxInt64 = MaxInt64 /\
  satadd 1000 100 = 1100 /\ wraps (1000 + MaxInt64) < 0.
Proof. unfold time_ok, MaxInt64. vm_compute. repeat split; try discriminate; reflexivity. Qed.
